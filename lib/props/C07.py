"""C07 - model files round-trip; partial or foreign files are rejected."""
import json
import os
import vlib
from props import _score, C06

LEVEL = "fault_enumeration"


def wide_model():
    """A model whose serialisation exercises multi-byte varint length prefixes (>250 entries, long strings)."""
    cng = [{"ng": [0x3042 + (i % 80), 0x30A2 + (i // 80)], "w": [i - 130, 0, -i]} for i in range(260)]
    word = [0x4E00 + i for i in range(300)]
    return {"bias": -70000, "cw": 2, "tw": 1, "cng": cng, "tng": [{"ng": [3, 4], "w": [40000]}],
            "dict": [{"ng": word, "w": [((-1) ** i) * (i * 1000) for i in range(301)], "c": [99, 44, 34, 10]}],
            "tags": [{"token": [0x3042], "cats": [[[65], [66]]], "cng": [{"ng": [0x3042], "tw": [{"rel": 0, "w": [7, -7]}]}],
                      "tng": [], "bias": [1, -1]}]}


def design(ctx):
    consts = {"MaxL": 6, "Hdr": 2, "MaxTrail": 2, "CheckLen": True}
    cfg = vlib.cfg_text(constants=consts, invariants=["ReaderRefines", "NeverPanic", "NoOverRead", "SliceOk", "NotStuck"])
    res = vlib.tlc("C07-mc-files", "MC_Files", cfg)
    if res["violated"]:
        raise vlib.ToolError("MC_Files: design-level invariant violated: " + res["violated"])
    ctx.add_tlc(res, "MC_Files: all (length<=6, truncation, fault position, chunking, interrupts, header ok/foreign): the step-wise "
                     "reader ends in the demanded outcome, never panics, never over-reads")
    consts["CheckLen"] = False
    resm = vlib.tlc("C07-mut-files", "MC_Files", vlib.cfg_text(constants=consts, invariants=["SliceOk"]))
    if resm["violated"] != "SliceOk":
        raise vlib.ToolError("spec mutant (slice reader without length check) was not rejected by TLC")
    ctx.add_part(spec_mutant="slice reader indexes the header without checking the length", rejected_by="SliceOk")
    # unbounded: the same reader machine for EVERY length / truncation / fault position, by an inductive invariant (Apalache)
    mod = os.path.join(vlib.SPEC, "apalache", "FilesInd.tla")
    obligations = [("Init", "IndInv", 0), ("IndInit", "IndInv", 1), ("IndInit", "Refines", 0)]
    done = 0
    for init, inv, ln in obligations:
        if not vlib.apalache(f"C07-{init}-{inv}", mod, init, inv, ln):
            raise vlib.ToolError(f"FilesInd: inductive obligation {init} => {inv} (length {ln}) fails")
        done += 1
    ctx.add_part(apalache="FilesInd: Init => IndInv, IndInv /\\ Next => IndInv', IndInv => Refines (reader refines VpFiles!ReadOutcome for "
                          "unbounded file length, truncation point, fault position and chunking)", obligations=len(obligations), discharged=done)


def run(ctx):
    binp = vlib.build_harness()
    ctx.rule = ("for each model file (the shipped resources/model.bin, generated models with tag models, and a model with "
                "multi-byte varint lengths): every proper prefix through read_slice and read (plain, 1-byte chunks, interrupted), "
                "an I/O fault at every position of reader and writer, every single-byte header corruption (2 values), 4 trailing "
                "byte strings, chunked/interrupted writers and readers of the complete file; strings of 4096+ bytes; a 23 MB model; the three "
                "model-writing tools with a sink that refuses every byte; distinct non-trivial = distinct (file, operation, position) triples")
    design(ctx)
    models = []
    sc = _score.generate(ctx, True, only=["F6-mixed"], record=False)
    for fam, c in sc[:: max(1, len(sc) // (2 if ctx.quick else 12))][: (2 if ctx.quick else 12)]:
        models.append({"model": c["model"], "texts": [r["text"] for r in c["runs"][-3:]]})
    tg = C06.generate(ctx, True)
    for fam, c in tg[:: max(1, len(tg) // (2 if ctx.quick else 20))][: (2 if ctx.quick else 20)]:
        models.append({"model": c["model"], "texts": [r["text"] for r in c["runs"][-3:]]})
    models.append({"model": wide_model(), "texts": [[0x3042, 0x30A2, 0x3042], [0x4E00 + i for i in range(12)]]})
    # window sizes in the upper half of the u8 range (2*W does not fit into 8 bits)
    for cw, tw in ((128, 255), (200, 127)):
        models.append({"model": {"bias": 3, "cw": cw, "tw": tw,
                                 "cng": [{"ng": [0x3042], "w": [((i * 7) % 23) - 11 for i in range(2 * cw)]}],
                                 "tng": [{"ng": [3, 3], "w": [((i * 5) % 17) - 8 for i in range(2 * tw - 1)]}],
                                 "dict": [{"ng": [0x3042, 0x3042], "w": [4, -9, 4], "c": []}], "tags": []},
                       "texts": [[0x3042, 0x3042, 0x3042], [0x3042]]})
    # single strings of 4096 / 5000 bytes (dictionary comments): larger than any internal buffering granule of a writer
    models.append({"model": {"bias": -2, "cw": 1, "tw": 1, "cng": [{"ng": [0x3042], "w": [3, -4]}], "tng": [],
                             "dict": [{"ng": [0x3042, 97], "w": [1, -2, 3], "c": [120] * 4096},
                                      {"ng": [97], "w": [5, -6], "c": [0x3042] * 1667 + [121] * 3}], "tags": []},
                   "texts": [[0x3042, 97, 97], [97]]})
    wd = os.path.join(vlib.WORK, "record")
    os.makedirs(wd, exist_ok=True)
    mp = os.path.join(wd, "C07-models.ndjson")
    with open(mp, "w") as f:
        for m in models:
            f.write(json.dumps(m) + "\n")
    outp = os.path.join(wd, "C07-files.ndjson")
    # one large model: 45 000 unigrams x 510 weights (about 23 MB on disk, 90 MB decoded)
    os.environ["VERIF_BIG_NGRAMS"] = "45000"
    vlib.run_harness(binp, ["files", mp, outp, "0" if ctx.quick else "1", "/repo/resources/model.bin"], name="files driver")
    events = [json.loads(x) for x in open(outp)]
    ctx.evaluations += len(events)
    for e in events:
        ctx.nontriv((e["file"], e["op"], e.get("cut", e.get("fault", e.get("pos", str(e.get("trail")) + str(e.get("chunk")) + str(e.get("intr")))))))
    # the command-line tools that write model files, with a sink that refuses every byte (/dev/full): the writer fails part-way
    # (at the latest when the compressed stream is finished), so the tool must report an error - never exit 0 with a broken file
    import subprocess
    if os.path.exists("/dev/full"):
        cli = vlib.build_cli()
        tw = os.path.join(vlib.WORK, "cli07")
        os.makedirs(tw, exist_ok=True)
        mj, mz = os.path.join(tw, "m.json"), os.path.join(tw, "m.zst")
        json.dump(models[0]["model"], open(mj, "w"))
        vlib.run_harness(binp, ["mkmodel", mj, mz], name="mkmodel")
        open(os.path.join(tw, "c.tok"), "w").write("aあ a\nあ aa\n")
        runs = [("manipulate_model", ["--model-in", mz, "--model-out"]),
                ("convert_kytea_model", ["--model-in", "/repo/resources/kytea-model.bin", "--model-out"]),
                ("train", ["--tok", os.path.join(tw, "c.tok"), "--charw", "1", "--charn", "1", "--typew", "1", "--typen", "1", "--solver", "1", "--model"])]
        for tool, args in runs:
            for sink in ("/dev/full", os.path.join(tw, tool + ".out")):
                p = subprocess.run([os.path.join(cli, tool)] + args + [sink], stdout=subprocess.PIPE, stderr=subprocess.PIPE, timeout=300,
                                   env=vlib.cargo_env())
                good_sink = sink != "/dev/full"
                events.append({"id": len(events), "ev": "file", "file": tool, "op": "tool_write", "len": 1, "fault": 1 if good_sink else 0,
                               "outcome": "ok" if p.returncode == 0 else ("err" if p.returncode > 0 and p.returncode < 128 and b"panicked" not in p.stderr else "panic"),
                               "good_sink": good_sink})
                ctx.evaluations += 1
    rej, _ = vlib.validate_trace(ctx, "C07-files", "Trace_Files", events, constants={"Hdr": 25}, chunk=15000)
    byid = {e["id"]: e for e in events}
    for rid in rej:
        e = byid[rid]
        small = {k: v for k, v in e.items() if k not in ("bytes", "reser", "written", "pred")}
        ctx.violation(f"C07:{e['file']}:{e['op']}:{e.get('cut', e.get('fault', e.get('pos', '')))}:{e.get('outcome')}",
                      f"event not allowed by VpFiles: {json.dumps(small)}", {"kind": "file-event", "event": small},
                      cls=f"C07:{e['op']}:{e.get('outcome')}")
    for e in events[:: max(1, len(events) // 4)][:4]:
        ctx.sample({k: v for k, v in e.items() if k not in ("bytes", "reser", "written", "pred")})
    ctx.add_part(files=len(models) + 1, events=len(events), rejected=len(rej))
    ctx.exhaustive = True


def replay(ctx, path):
    raise vlib.ToolError("replay: re-run bin/check C07 (events are enumerated per file)")
