"""C13 - cargo feature flags change speed, never results."""
import itertools
import vlib
from props import _score, C06, C14

LEVEL = "exploration"

FEATS = ["std", "cache-type-score", "fix-weight-length", "tag-prediction", "charwise-pma"]


def builds(quick):
    subsets = []
    if quick:
        subsets.append(())
        for f in FEATS:
            subsets.append((f,))
        for f in FEATS:
            subsets.append(tuple(x for x in FEATS if x != f))
    else:
        for r in range(len(FEATS) + 1):
            subsets += list(itertools.combinations(FEATS, r))
    # the full default set is the reference build (the ordinary harness)
    return [s for s in subsets if set(s) != set(FEATS)]


def run(ctx):
    ref_bin = vlib.build_harness()
    ctx.rule = ("the same TLC-generated histories (C01 model families incl. windows on both sides of the cache and 8-slot switches; "
                "C06 tag-model families; sentence-API call histories with writers and token iterator) replayed by the harness compiled against vaporetto with each feature subset of "
                "{std, cache-type-score, fix-weight-length, tag-prediction, charwise-pma} (quick: none, each single feature, each "
                "single feature removed; thorough: all 32 subsets + portable-simd on nightly); Trace_Pair requires the observations "
                "of every build to equal the default build's; non-trivial = (build, history) pair with a non-bias score")
    sc = _score.generate(ctx, True, only=["F1-char-ngrams", "F2-ngram-and-word", "F3-wide-windows", "F4-type-ngrams", "F6-mixed", "F7-type-gaps", "F10-cancelling", "F11-right-only"])
    stride = max(1, len(sc) // (240 if ctx.quick else 500))
    score_h = []
    for fam, c in sc[::stride]:
        c = dict(c, runs=c["runs"][len(score_h) % 3::max(1, len(c["runs"]) // 10)][:12])   # short and long texts
        h = _score.to_history(len(score_h), fam, c)
        score_h.append(h)
    tg = C06.generate(ctx, True)
    stride = max(1, len(tg) // (160 if ctx.quick else 400))
    tag_h = []
    for fam, c in tg[::stride]:
        c = dict(c, runs=c["runs"][len(tag_h) % 3::max(1, len(c["runs"]) // 8)][:10])
        tag_h.append(C06.to_history(10 ** 6 + len(tag_h), fam, c))

    def send(hs):
        out = []
        for h in hs:
            d = {k: v for k, v in h.items() if k not in ("expect", "key", "pred_expect")}
            d["kind"] = "history"
            out.append(d)
        return out
    s_send, t_send = send(score_h), send(tag_h)
    # call histories with SEVERAL predictors on one sentence object (from the life-cycle model): scratch state left by one
    # scorer variant must not change what another computes
    from props import _lifecycle as L
    lc, lpreds = L.generate(ctx, 3, 1)
    multi = [c for c in lc if sum(1 for o in c["ops"][:-14] if o["op"] == "predict") >= 2]
    for k, c in enumerate(multi[:: max(1, len(multi) // (120 if ctx.quick else 600))]):
        t_send.append({"id": 5 * 10 ** 6 + k, "kind": "history", "preds": lpreds, "ops": c["ops"], "opts": {"writers": False}})
    # the sentence API itself (parsers, updates, tag resets, hand-set labels, filters, writers, token iterator) on call histories
    # without tag prediction: every build - also those without `tag-prediction` - must observe the same states and write the same lines
    plain_preds = [dict(p, tags=False, store=False) for p in lpreds]
    n_send = []
    for k, c in enumerate(lc[:: max(1, len(lc) // (150 if ctx.quick else 900))]):
        n_send.append({"id": 6 * 10 ** 6 + k, "kind": "history", "preds": plain_preds, "ops": [o for o in c["ops"] if o["op"] != "fill_tags"],
                       "opts": {"writers": True, "reparse": False}})
    # seeded random (model, texts) cases, generated once and replayed under every build
    gen = vlib.record_events(ref_bin, "gencases", 360 if ctx.quick else 1500, ctx.seed, "C13-gencases")
    for g in gen:
        wt = g.pop("with_tags")
        g["id"] = (2 if wt else 3) * 10 ** 6 + g["id"]
        (t_send if wt else s_send).append(g)
    ref_s = vlib.run_replay(ref_bin, s_send, "C13-ref-score")
    ref_t = vlib.run_replay(ref_bin, t_send, "C13-ref-tags")
    ref_n = vlib.run_replay(ref_bin, n_send, "C13-ref-sentence-api")
    # model files must survive every build: read_slice + to_vec reproduces the bytes (tag models included)
    import json, os
    from props import C07
    canon_models = [{"model": C07.wide_model()}] + [{"model": h["preds"][0]["model"]} for h in tag_h[:: max(1, len(tag_h) // 6)][:6]]
    cpath = os.path.join(vlib.WORK, "record", "C13-canon-models.ndjson")
    os.makedirs(os.path.dirname(cpath), exist_ok=True)
    with open(cpath, "w") as f:
        for m in canon_models:
            f.write(json.dumps(m) + "\n")
    canon_events = []
    events = []
    meta = {}
    blist = builds(ctx.quick)
    variants = [(fs, None) for fs in blist]
    if not ctx.quick:
        variants.append((tuple(FEATS) + ("portable-simd",), "nightly"))
        variants.append((("fix-weight-length", "portable-simd"), "nightly"))
    if os.environ.get("C13_ONLY_SIMD"):
        # (used by the sensitivity tests only) restrict the matrix to the nightly portable-simd builds
        variants = [v for v in variants if v[1] == "nightly"] or [(tuple(FEATS) + ("portable-simd",), "nightly"),
                                                                  (("fix-weight-length", "portable-simd"), "nightly")]
    for fs, tool in variants:
        tag = "none" if not fs else "+".join(x.split("-")[0] for x in fs)
        try:
            binp = vlib.build_harness(features=list(fs) or None, no_default=True, target_sub="matrix", toolchain=tool)
        except vlib.BuildError as e:
            ctx.violation(f"C13:build:{tag}", f"feature subset {fs} does not build: {str(e)[-300:]}", {"kind": "build", "features": fs},
                          cls="C13:build")
            continue
        # cargo reuses one binary path per target dir: copy it aside
        import shutil, os
        keep = os.path.join(vlib.WORK, "matrix-bin", "vph-" + tag + ("-" + tool if tool else ""))
        os.makedirs(os.path.dirname(keep), exist_ok=True)
        shutil.copy2(binp, keep)
        vlib._built.pop((("dev", "vph", tuple(fs), "matrix", tool, None, True)), None)
        cout = os.path.join(vlib.WORK, "record", f"C13-canon-{tag}.ndjson")
        vlib.run_harness(keep, ["canon", cpath, cout], name="canon")
        for line in open(cout):
            e = json.loads(line)
            e["id"] = len(canon_events)
            e["build"] = tag
            canon_events.append(e)
        obs_s = vlib.run_replay(keep, s_send, f"C13-{tag}-score")
        sets = [(s_send, ref_s, obs_s)]
        # a predictor serialised and deserialised BY THIS BUILD must still agree with the default build's fresh predictor
        ser = [dict(d, preds=[dict(p, serde=True, trail=[]) for p in d["preds"]]) for d in s_send[-80:]]
        obs_ser = vlib.run_replay(keep, ser, f"C13-{tag}-serde")
        sets.append((ser, ref_s, obs_ser))
        if "tag-prediction" in fs:
            ser_t = [dict(d, preds=[dict(p, serde=True, trail=[]) for p in d["preds"]]) for d in t_send[-60:]]
            sets.append((ser_t, ref_t, vlib.run_replay(keep, ser_t, f"C13-{tag}-serde-tags")))
        if "tag-prediction" in fs:
            obs_t = vlib.run_replay(keep, t_send, f"C13-{tag}-tags")
            sets.append((t_send, ref_t, obs_t))
        if "tag-prediction" not in fs:
            # builds without tag prediction still predict boundaries on models that carry tag models: scores and labels must
            # equal those of the default build (which predicted tags as well)
            sets.append((t_send, ref_t, vlib.run_replay(keep, t_send, f"C13-{tag}-tagmodels"), "predict-only"))
        sets.append((n_send, ref_n, vlib.run_replay(keep, n_send, f"C13-{tag}-sentence-api"), "full"))
        for item in sets:
            snd, ref, obs = item[0], item[1], item[2]
            only_predict = len(item) > 3 and item[3] == "predict-only"
            full_view = len(item) > 3 and item[3] == "full"
            for d in snd:
                x, y = ref[d["id"]], obs[d["id"]]
                ok = "steps" in x and "steps" in y and x.get("preds") == y.get("preds")

                def view(o):
                    if "steps" not in o:
                        return []
                    if full_view:
                        return o["steps"]
                    st = C14.strip(o["steps"])
                    if only_predict:
                        return [{"res": s["res"], "scores": s["proj"].get("scores") if isinstance(s["proj"], dict) else s["proj"],
                                 "bnd": s["proj"].get("bnd") if isinstance(s["proj"], dict) else None}
                                for s, op in zip(st, d["ops"]) if op["op"] == "predict"]
                    return st
                eid = len(events)
                events.append({"id": eid, "ev": "pair", "ok": ok, "a": view(x), "b": view(y)})
                meta[eid] = (tag, d)
                ctx.evaluations += 1
                if "steps" in x and any(isinstance(s["proj"], dict) and len(set(s["proj"].get("scores") or [])) > 1 for s in x["steps"]):
                    ctx.nontriv((tag, d["id"]))
        ctx.add_part(build=tag, toolchain=tool or "default", histories=sum(len(s[0]) for s in sets))
    crej, _ = vlib.validate_trace(ctx, "C13-canon", "Trace_Files", canon_events, constants={"Hdr": 25})
    for rid in crej:
        e = canon_events[rid]
        ctx.violation(f"C13:{e['build']}:canon:{e['file']}", f"build [{e['build']}]: reading a model file and serialising it again gives outcome "
                      f"{e['outcome']} / different bytes ({e['len']} -> {len(e['reser'])} bytes)", {"kind": "canon", "build": e["build"]},
                      cls=f"C13:{e['build']}:canon")
    ctx.evaluations += len(canon_events)
    rej, _ = vlib.validate_trace(ctx, "C13-pairs", "Trace_Pair", events, chunk=2500)
    for rid in rej:
        tag, d = meta[rid]
        e = events[rid]
        what = f"build [{tag}] differs from the default build"
        for k, (p, q) in enumerate(zip(e["a"], e["b"])):
            if p != q:
                what += f" at step {k} ({d['ops'][k]['op']}): default {str(p)[:160]} vs {str(q)[:160]}"
                break
        ctx.violation(f"C13:{tag}:case{d['id']}", what, {"kind": "matrix", "features": tag, "harness_case": d}, cls=f"C13:{tag}")
    ctx.sample({"builds": ["none" if not fs else "+".join(fs) for fs, _ in variants][:6], "history_ops": s_send[0]["ops"][:4],
                "model": s_send[0]["preds"][0]["model"]})


def replay(ctx, path):
    raise vlib.ToolError("replay: re-run bin/check C13")
