"""C14 - a serialised predictor behaves exactly like the original."""
import vlib
from props import _score, C06

LEVEL = "model_checking"

TRAILS = [[], [0], [255, 1, 2, 3], [86, 97, 112, 111]]


def strip(steps):
    return [{"res": s["res"], "proj": {k: s["proj"].get(k) for k in ("scores", "bnd", "ntags", "tags", "tokens")}
             if isinstance(s["proj"], dict) else s["proj"]} for s in steps]


def run(ctx):
    binp = vlib.build_harness()
    ctx.rule = ("model families of C01 (windows on both sides of the 8-slot switch, trailing-zero weight vectors) and tag-model "
                "families of C06, each replayed through the original predictor and through serialize_to_vec -> "
                "deserialize_from_slice_unchecked(bytes ++ trailing); Trace_Pair requires identical observations and rest = "
                "trailing bytes; non-trivial = model with at least one entry whose history contains a non-bias score")
    fams = ["F2-ngram-and-word", "F3-wide-windows", "F4-type-ngrams", "F6-mixed"] if ctx.quick else None
    hc = []
    for i, (fam, c) in enumerate(_score.generate(ctx, True if ctx.quick else False, only=fams)):
        hc.append(_score.to_history(len(hc), fam, c))
    for fam, c in C06.generate(ctx, ctx.quick):
        hc.append(C06.to_history(len(hc), fam, c))
    # two variants of every history
    a_cases, b_cases = [], []
    for h in hc:
        base = {k: v for k, v in h.items() if k not in ("expect", "key", "pred_expect")}
        base["kind"] = "history"
        a_cases.append(base)
        b = dict(base)
        trail = TRAILS[h["id"] % len(TRAILS)]
        b["preds"] = [dict(p, serde=True, trail=trail) for p in base["preds"]]
        b_cases.append(b)
    oa = vlib.run_replay(binp, a_cases, "C14-orig")
    ob = vlib.run_replay(binp, b_cases, "C14-serde")
    events = []
    for h, a, b in zip(hc, a_cases, b_cases):
        x, y = oa[h["id"]], ob[h["id"]]
        ok = ("steps" in x and "steps" in y and x.get("preds") == ["ok"] and y.get("preds") == ["ok"])
        ea = strip(x["steps"]) if "steps" in x else []
        eb = strip(y["steps"]) if "steps" in y else []
        rest = y.get("rests", [None])[0]
        events.append({"id": h["id"], "ev": "serde", "ok": ok, "a": ea, "b": eb,
                       "rest": rest if isinstance(rest, list) else [-1], "trail": b["preds"][0]["trail"]})
        ctx.evaluations += 1
        if any(isinstance(s["proj"], dict) and s["proj"].get("scores") and len(set(s["proj"]["scores"])) > 1 for s in ea):
            ctx.nontriv(h["id"])
    rej, _ = vlib.validate_trace(ctx, "C14-pairs", "Trace_Pair", events, chunk=1500)
    byid = {h["id"]: (h, b) for h, b in zip(hc, b_cases)}
    for rid in rej:
        h, b = byid[rid]
        x, y = oa[rid], ob[rid]
        what = "deserialised predictor differs from the original"
        if y.get("preds") != ["ok"]:
            what = f"deserialisation failed: {y.get('preds')}"
        elif y.get("rests", [None])[0] != b["preds"][0]["trail"]:
            what = f"rest {y.get('rests')} != trailing bytes {b['preds'][0]['trail']}"
        else:
            for k, (s1, s2) in enumerate(zip(x.get("steps", []), y.get("steps", []))):
                if strip([s1]) != strip([s2]):
                    what = f"step {k} ({b['ops'][k]['op']}): original {str(strip([s1]))[:200]} deserialised {str(strip([s2]))[:200]}"
                    break
        ctx.violation(f"C14:{h['key']}", what, {"kind": "pair", "a": {k: v for k, v in a_cases[rid].items()}, "b": b},
                      cls="C14:pair")
    ctx.sample({"model": hc[0]["preds"][0]["model"], "trailing": TRAILS[0], "ops": hc[0]["ops"][:4]})
    ctx.add_part(histories=len(hc), rejected=len(rej))


def replay(ctx, path):
    raise vlib.ToolError("replay of pair cases: re-run bin/check C14")
