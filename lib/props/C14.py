"""C14 - a serialised predictor behaves exactly like the original."""
import vlib
from props import _score, C06

LEVEL = "model_checking"

TRAILS = [[], [0], [255, 1, 2, 3], [86, 97, 112, 111], [1], [1, 1, 0], [2]]


def strip(steps):
    return [{"res": s["res"], "proj": {k: s["proj"].get(k) for k in ("scores", "bnd", "ntags", "tags", "tokens")}
             if isinstance(s["proj"], dict) else s["proj"]} for s in steps]


def run(ctx):
    binp = vlib.build_harness()
    ctx.rule = ("(a) enumerated: model families of C01 (windows on both sides of the 8-slot switch; with predict_tags on and off) and "
                "tag-model families of C06 (tag models in both orders), each history replayed through the original predictor and "
                "through serialize_to_vec -> deserialize_from_slice_unchecked(bytes ++ trailing); (b) seeded random models with "
                "zero/extreme weights, 0..3 tag models, random trailing bytes; Trace_Pair requires identical observations and rest = "
                "trailing bytes; non-trivial = case whose observations contain a score different from the bias or a tag")
    fams = ["F3-wide-windows", "F6-mixed"] if ctx.quick else ["F2-ngram-and-word", "F3-wide-windows", "F4-type-ngrams", "F6-mixed"]
    hc = []
    sc = _score.generate(ctx, True, only=fams)
    stride = max(1, len(sc) // (150 if ctx.quick else 1500))
    for fam, c in sc[::stride]:
        c = dict(c, runs=c["runs"][len(hc) % 3::max(1, len(c["runs"]) // 10)][:12])
        hc.append(_score.to_history(len(hc), fam, c, tags=(len(hc) % 2 == 0)))
    tg = C06.generate(ctx, True)
    stride = max(1, len(tg) // (150 if ctx.quick else 1500))
    for fam, c in tg[::stride]:
        c = dict(c, runs=c["runs"][len(hc) % 3::max(1, len(c["runs"]) // 10)][:12])
        hc.append(C06.to_history(len(hc), fam, c))
    # dictionary words far longer than any window (256 and 300 characters: offsets that do not fit into 8 bits), with and without
    # tag prediction
    for n, tags in ((256, False), (300, True), (255, False)):
        word = [12354] * n
        m = {"bias": -3, "cw": 2, "tw": 1, "cng": [{"ng": [12354, 97], "w": [5, -4, 2]}], "tng": [],
             "dict": [{"ng": word, "w": [((k * 7) % 19) - 9 for k in range(n + 1)]}, {"ng": [97, 12354], "w": [4, -8, 4]}],
             "tags": ([{"token": [97], "cats": [[[65], [66]]], "cng": [{"ng": [12354, 97], "tw": [{"rel": 0, "w": [3, -3]}]}], "tng": [], "bias": [0, 1]}]
                      if tags else [])}
        texts = [[97] + word + [97, 12354], word[:-1] + [97], word + word[:5]]
        ops = []
        for t in texts:
            ops += [{"op": "up_raw", "s": t}, {"op": "predict", "p": 0}] + ([{"op": "fill_tags"}] if tags else [])
        hc.append({"id": len(hc), "preds": [{"model": m, "tags": tags, "store": False}], "pred_expect": ["ok"], "ops": ops,
                   "expect": [None] * len(ops), "opts": {"writers": False}, "key": f"long-word-{n}"})
    a_cases, b_cases = [], []
    for h in hc:
        base = {k: v for k, v in h.items() if k not in ("expect", "key", "pred_expect")}
        base["kind"] = "history"
        a_cases.append(base)
        b = dict(base)
        trail = TRAILS[h["id"] % len(TRAILS)]
        b["preds"] = [dict(p, serde=True, trail=trail) for p in base["preds"]]
        b_cases.append(b)
    oa = vlib.run_replay(binp, a_cases, "C14-orig")
    ob = vlib.run_replay(binp, b_cases, "C14-serde")
    events = []
    for h, a, b in zip(hc, a_cases, b_cases):
        x, y = oa[h["id"]], ob[h["id"]]
        ok = ("steps" in x and "steps" in y and x.get("preds") == ["ok"] and y.get("preds") == ["ok"])
        ea = strip(x["steps"]) if "steps" in x else []
        eb = strip(y["steps"]) if "steps" in y else []
        rest = y.get("rests", [None])[0]
        events.append({"id": h["id"], "ev": "serde", "ok": ok, "a": ea, "b": eb,
                       "rest": rest if isinstance(rest, list) else [-1], "trail": b["preds"][0]["trail"]})
        ctx.evaluations += 1
        if any(isinstance(s["proj"], dict) and s["proj"].get("scores") and len(set(s["proj"]["scores"])) > 1 for s in ea):
            ctx.nontriv(h["id"])
    nenum = len(events)
    rnd = vlib.record_parallel(binp, "serde", 1500 if ctx.quick else 40000, ctx.seed, "C14-serde-rand")
    for e in rnd:
        e["id"] = nenum + e["id"]
        e["model_entries"] = len(e["model"]["cng"]) + len(e["model"]["tng"]) + len(e["model"]["dict"])
        ctx.evaluations += 1
        if e.get("ok") and e["a"] and any(isinstance(o, dict) and (len(set(o["scores"])) > 1 or o["ntags"]) for o in e["a"]):
            ctx.nontriv(e["id"])
    slim = [{k: v for k, v in e.items() if k != "model"} for e in rnd]
    rej, _ = vlib.validate_trace(ctx, "C14-pairs", "Trace_Pair", events + slim, chunk=4000)
    byid = {h["id"]: (h, b) for h, b in zip(hc, b_cases)}
    rbyid = {e["id"]: e for e in rnd}
    for rid in rej:
        if rid in rbyid:
            e = rbyid[rid]
            what = "random model: deserialised predictor differs from the original"
            if not e["ok"]:
                what = f"random model: construction/deserialisation failed or a call panicked: {e.get('why', '')} a={str(e['a'])[:150]} b={str(e['b'])[:150]}"
            elif e["rest"] != e["trail"]:
                what = f"random model: rest {e['rest']} != trailing bytes {e['trail']}"
            else:
                for i, (p, q) in enumerate(zip(e["a"], e["b"])):
                    if p != q:
                        what = f"random model, text {i}: original {str(p)[:200]} deserialised {str(q)[:200]}"
                        break
            ctx.violation(f"C14:random:seed{e.get('driver_seed')}:id{rid}", what, {"kind": "serde-random", "event": e}, cls="C14:random:" + what[:40])
            continue
        h, b = byid[rid]
        x, y = oa[rid], ob[rid]
        what = "deserialised predictor differs from the original"
        if y.get("preds") != ["ok"]:
            what = f"deserialisation failed: {y.get('preds')}"
        elif y.get("rests", [None])[0] != b["preds"][0]["trail"]:
            what = f"rest {y.get('rests')} != trailing bytes {b['preds'][0]['trail']}"
        else:
            for k, (s1, s2) in enumerate(zip(x.get("steps", []), y.get("steps", []))):
                if strip([s1]) != strip([s2]):
                    what = f"step {k} ({b['ops'][k]['op']}): original {str(strip([s1]))[:200]} deserialised {str(strip([s2]))[:200]}"
                    break
        ctx.violation(f"C14:{h['key']}", what, {"kind": "pair", "a": {k: v for k, v in a_cases[rid].items()}, "b": b},
                      cls="C14:pair:" + what[:30])
    ctx.sample({"model": hc[0]["preds"][0]["model"], "trailing": TRAILS[0], "ops": hc[0]["ops"][:4]})
    if rnd:
        ctx.sample({"random_event": {k: v for k, v in rnd[0].items() if k not in ("model",)}})
    ctx.add_part(enumerated_histories=len(hc), random_models=len(rnd), rejected=len(rej))


def replay(ctx, path):
    raise vlib.ToolError("replay of pair cases: re-run bin/check C14")
