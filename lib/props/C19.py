"""C19 - dictionary edits act as documented; dump and replace are lossless."""
import json
import os
import subprocess
import vlib

LEVEL = "model_checking"


def canon_model(m):
    m = json.loads(json.dumps(m))
    for e in m.get("dict", []):
        e.setdefault("c", [])
    return m


def library_half(ctx, binp):
    q = ctx.quick
    consts = {"OldSel": {0, 3, 6, 21, 96} if not q else {0, 3, 6, 32}, "NewSel": {0, 5, 3, 26, 31, 127} if not q else {0, 5, 26, 96},
              "DupSet": "{TRUE, FALSE}",
              "TextAlpha": {97, 12354, 28450}, "MaxText": 4 if not q else 3, "BadCounts": True, "NoCngSet": "{TRUE, FALSE}"}
    res = vlib.tlc("C19-gen-dictedit", "Gen_DictEdit", vlib.cfg_text(constants=consts, invariants=["DiffLaw", "Emit"]))
    if res["violated"]:
        raise vlib.ToolError("Gen_DictEdit: the score-difference law fails on the specification")
    cases = vlib.nonempty(vlib.cases_from(res["out"]), "Gen_DictEdit")
    ctx.add_tlc(res, f"Gen_DictEdit: {len(cases)} (old dictionary, new dictionary) pairs x {len(cases[0]['texts'])} texts; score-difference law holds")
    send = [{"id": i, "kind": "dictedit", "model": c["model"], "newdict": c["newdict"], "texts": c["texts"]} for i, c in enumerate(cases)]
    obs = vlib.run_replay(binp, send, "C19-dictedit")
    bad = 0
    for c, d in zip(cases, send):
        o = obs[d["id"]]
        key = f"old={[''.join(map(chr, e['ng'])) for e in c['model']['dict']]}:new={[''.join(map(chr, e['ng'])) for e in c['newdict']]}"
        ctx.evaluations += len(c["texts"])
        if c["model"]["dict"] != c["model_after"]["dict"]:
            ctx.nontriv(key)
        fail = None
        if "abort" in o or o.get("res") != "ok":
            fail = ("run", f"edit failed: {str(o)[:200]}")
        elif o["records"] != c["records"]:
            fail = ("records", f"record acceptance {o['records']} expected {c['records']}")
        elif o["before"] != c["before"]:
            fail = ("before", "scores before the edit differ from RefScores (C01's business; reported for context)")
        elif o["after"] != c["after"]:
            k = next(i for i, (a, b) in enumerate(zip(o["after"], c["after"])) if a != b)
            fail = ("after", f"scores after replace_dictionary on text {c['texts'][k]}: observed {o['after'][k]} expected {c['after'][k]}")
        elif canon_model(o["model_after"]) != canon_model(c["model_after"]):
            fail = ("model", f"model after the edit differs outside/inside the dictionary: {json.dumps(o['model_after'])[:300]}")
        if fail and fail[0] != "before":
            bad += 1
            ctx.violation(f"C19:lib:{key}:{fail[0]}", fail[1], {"kind": "dictedit", "case": d}, cls="C19:lib:" + fail[0])
    ctx.add_part(replayed="replace_dictionary cases", cases=len(cases), failing=bad)
    ctx.sample({"old_dictionary": cases[-1]["model"]["dict"], "new_dictionary": cases[-1]["newdict"][:2], "text": cases[-1]["texts"][-1],
                "scores_after": cases[-1]["after"][-1]})


def run_tool(cli, args, timeout=60):
    p = subprocess.run([os.path.join(cli, "manipulate_model")] + args, stdout=subprocess.PIPE, stderr=subprocess.PIPE, timeout=timeout,
                       env=vlib.cargo_env())
    return p.returncode


def tool_half(ctx, binp):
    q = ctx.quick
    cli = vlib.build_cli()
    consts = {"Alphabet": {97, 12354, 44, 34, 32, 10, 13, 35, 92, 59, 9} if q else {97, 12354, 44, 34, 32, 10, 13, 35, 92, 9}, "MaxLen": 2 if q else 3,
              "CommentSel": 2}
    res = vlib.tlc("C19-gen-csv", "Gen_Csv", vlib.cfg_text(constants=consts, invariants=["Emit"]))
    cases = vlib.nonempty(vlib.cases_from(res["out"]), "Gen_Csv")
    ctx.add_tlc(res, f"Gen_Csv: {len(cases)} dictionaries over the CSV-hostile alphabet (comma, quote, space, LF, CR, TAB, #, back slash, semicolon, multi-byte)")
    wd = os.path.join(vlib.WORK, "cli19")
    os.makedirs(wd, exist_ok=True)
    base = {"bias": 7, "cw": 1, "tw": 1, "cng": [{"ng": [97], "w": [1, -1]}], "tng": [], "dict": [], "tags": []}
    events, meta = [], {}
    cases = [{"dict": []}, {"dict": [{"ng": [], "w": [7], "c": [99]}, {"ng": [97], "w": [16777217, -33554433], "c": []}]}] + cases
    # (an empty dictionary and a dictionary holding the zero-length word must survive dump -> replace as well)
    for i, c in enumerate(cases):
        m = dict(base, dict=c["dict"])
        mj, mz, csvp, outz = (os.path.join(wd, f"m{i}.{x}") for x in ("json", "zst", "csv", "out.zst"))
        json.dump(m, open(mj, "w"))
        vlib.run_harness(binp, ["mkmodel", mj, mz], name="mkmodel")
        for pth in (csvp, outz):
            if os.path.exists(pth):
                os.remove(pth)
        rc1 = run_tool(cli, ["--model-in", mz, "--dump-dict", csvp])
        rc2 = run_tool(cli, ["--model-in", mz, "--replace-dict", csvp, "--model-out", outz]) if rc1 == 0 else -1
        a, b = [], [-1]
        if rc1 == 0 and rc2 == 0 and os.path.exists(outz):
            vlib.run_harness(binp, ["unzstd", mz, mz + ".raw"], name="unzstd")
            vlib.run_harness(binp, ["unzstd", outz, outz + ".raw"], name="unzstd")
            a = list(open(mz + ".raw", "rb").read())
            b = list(open(outz + ".raw", "rb").read())
        events.append({"id": i, "ev": "pair", "ok": rc1 == 0 and rc2 == 0, "a": a, "b": b})
        meta[i] = (c, rc1, rc2, csvp)
        ctx.evaluations += 1
        if any(ch in (44, 34, 10, 13) for e in c["dict"] for ch in e["ng"] + e["c"]):
            ctx.nontriv(("csv", i))
    # hand-written CSV with a wrong weight count must be rejected, and no model written
    i0 = len(events)
    bad_csvs = ["word,weights,comment\nab,1 2,\n", "word,weights,comment\na,1 2 3,x\n", "word,weights,comment\nab,1 2 3,\nc,5,\n"]
    mj, mz = os.path.join(wd, "bad.json"), os.path.join(wd, "bad.zst")
    json.dump(dict(base, dict=[{"ng": [97], "w": [1, 2], "c": []}]), open(mj, "w"))
    vlib.run_harness(binp, ["mkmodel", mj, mz], name="mkmodel")
    for k, txt in enumerate(bad_csvs):
        csvp, outz = os.path.join(wd, f"bad{k}.csv"), os.path.join(wd, f"bad{k}.out.zst")
        open(csvp, "w").write(txt)
        if os.path.exists(outz):
            os.remove(outz)
        rc = run_tool(cli, ["--model-in", mz, "--replace-dict", csvp, "--model-out", outz])
        ctx.evaluations += 1
        if rc == 0 or os.path.exists(outz):
            ctx.violation(f"C19:tool:badcount:{k}", f"CSV record with a wrong weight count was accepted (exit {rc}, output model written: {os.path.exists(outz)}): {txt!r}",
                          {"kind": "cli19-bad", "csv": txt}, cls="C19:tool:badcount")
    # replacing a non-empty dictionary by an EMPTY one through the tool (header-only CSV and zero-byte file): the result must be
    # the model with an empty dictionary
    mj, mz = os.path.join(wd, "full.json"), os.path.join(wd, "full.zst")
    json.dump(dict(base, dict=[{"ng": [97], "w": [5, -5], "c": []}, {"ng": [12354, 97], "w": [1, 2, 3], "c": [120]}]), open(mj, "w"))
    vlib.run_harness(binp, ["mkmodel", mj, mz], name="mkmodel")
    ej, ez = os.path.join(wd, "emptyd.json"), os.path.join(wd, "emptyd.zst")
    json.dump(dict(base, dict=[]), open(ej, "w"))
    vlib.run_harness(binp, ["mkmodel", ej, ez], name="mkmodel")
    vlib.run_harness(binp, ["unzstd", ez, ez + ".raw"], name="unzstd")
    want = list(open(ez + ".raw", "rb").read())
    for k, txt in enumerate(["word,weights,comment\n", ""]):
        csvp, outz = os.path.join(wd, f"empty{k}.csv"), os.path.join(wd, f"empty{k}.out.zst")
        open(csvp, "w").write(txt)
        for pth in (outz, outz + ".raw"):
            if os.path.exists(pth):
                os.remove(pth)
        rc = run_tool(cli, ["--model-in", mz, "--replace-dict", csvp, "--model-out", outz])
        got = [-1]
        if rc == 0 and os.path.exists(outz):
            vlib.run_harness(binp, ["unzstd", outz, outz + ".raw"], name="unzstd")
            got = list(open(outz + ".raw", "rb").read())
        eid = len(events)
        events.append({"id": eid, "ev": "pair", "ok": rc == 0, "a": want, "b": got})
        meta[eid] = ({"dict": [{"ng": [101, 109, 112, 116, 121], "w": [], "c": []}]}, rc, rc, csvp)
        ctx.evaluations += 1
    rej, _ = vlib.validate_trace(ctx, "C19-dump-replace", "Trace_Pair", events)
    for rid in rej:
        c, rc1, rc2, csvp = meta[rid]
        csvtxt = open(csvp, errors="replace").read()[:300] if os.path.exists(csvp) else ""
        ctx.violation(f"C19:tool:roundtrip:{[e['ng'] for e in c['dict']][:2]}", f"dump (exit {rc1}) then replace (exit {rc2}) does not reproduce the model "
                      f"byte for byte; dictionary {json.dumps(c['dict'])[:300]}; csv {csvtxt!r}", {"kind": "cli19", "dict": c["dict"]},
                      cls=f"C19:tool:roundtrip:rc{rc1}/{rc2}")
    ctx.add_part(tool_round_trips=len(events), rejected=len(rej), bad_count_csvs=len(bad_csvs))
    ctx.sample({"dictionary_for_dump_replace": cases[len(cases) // 2]["dict"]})


def run(ctx):
    binp = vlib.build_harness()
    ctx.rule = ("library: TLC-enumerated (old dictionary, new dictionary) pairs on a model with n-grams and a tag model x all texts up "
                "to the bound: scores after replace_dictionary = RefScores of the edited model, serialised model differs only in the "
                "dictionary, bad weight counts rejected; tool: manipulate_model --dump-dict then --replace-dict on dictionaries over "
                "{a, あ, comma, quote, space, LF, CR} with extreme weights and comments must reproduce the model byte for byte "
                "(Trace_Pair); non-trivial = dictionary that changes / contains a CSV-special character")
    library_half(ctx, binp)
    tool_half(ctx, binp)
    ctx.exhaustive = True


def replay(ctx, path):
    raise vlib.ToolError("replay: re-run bin/check C19")
