"""C17 - KyTea model conversion preserves the word-segmentation model."""
import json
import os
import sys
import vlib

sys.path.insert(0, os.path.join(vlib.VERIF, "lib"))
import kytea_writer  # noqa: E402

LEVEL = "model_checking"


def canon(m):
    def ents(es):
        return sorted(json.dumps({"ng": e["ng"], "w": e["w"]}) for e in es)
    return {"bias": m["bias"], "cw": m["cw"], "tw": m["tw"], "cng": ents(m["cng"]), "tng": ents(m["tng"]), "dict": ents(m["dict"]),
            "tags": len(m.get("tags", []))}


def run(ctx):
    binp = vlib.build_harness()
    q = ctx.quick
    ctx.rule = ("abstract KyTea models enumerated by TLC (windows 1..3, n-gram tries with shared prefixes and terminal inner nodes, "
                "vectors with surplus entries, 0..3 dictionaries with membership masks, length buckets 1..3, 0..2 tag slots) written "
                "to binary files by an independent writer, read and converted by the real code; the converted model is compared (as "
                "sets of entries) with VpKytea!Convert and its scores on probe texts with RefScores; every proper prefix of every "
                "generated file and of resources/kytea-model.bin must be rejected; non-trivial = model with a dictionary word")
    consts = {"CharWs": {1, 2, 3} if not q else {1, 3}, "TypeWs": {1, 2}, "DictNs": {1, 2, 3} if not q else {1, 3},
              "NDictsSet": {0, 1, 2, 3, 8} if not q else {0, 2, 3, 8}, "CSets": {0, 5, 63, 20} if not q else {5, 63},
              "TSets": {0, 7, 60, 63, 451, 199, 513, 3591} if not q else {7, 60, 451, 199, 3591}, "WSets": {0, 3, 15} if not q else {3, 15},
              "Surplus": 1, "NTagsSet": {0, 1, 2} if not q else {0, 2}}
    res = vlib.tlc("C17-gen-kytea", "Gen_Kytea", vlib.cfg_text(constants=consts, invariants=["WF", "Emit"]), timeout=3000)
    if res["violated"]:
        raise vlib.ToolError("Gen_Kytea: converted model not well-formed")
    cases = vlib.nonempty(vlib.cases_from(res["out"]), "Gen_Kytea")
    ctx.add_tlc(res, f"Gen_Kytea: {len(cases)} abstract KyTea models with expected converted models and probe scores")
    wd = os.path.join(vlib.WORK, "kytea")
    os.makedirs(wd, exist_ok=True)
    send = []
    for i, c in enumerate(cases):
        path = os.path.join(wd, f"k{i}.bin")
        with open(path, "wb") as f:
            km = dict(c["km"])
            if km.get("ntags", 0) >= 1 and i % 3 == 0:
                km["do_tags"] = 0          # e.g. a model trained with -notags on a tagged corpus: same segmentation model
            f.write(kytea_writer.write(km))
        send.append({"id": i, "kind": "kytea", "path": path, "probes": [p["text"] for p in c["probes"]],
                     "cuts": (i % (6 if q else 2) == 0), "cut_step": 1})
    send.append({"id": len(cases), "kind": "kytea", "path": "/repo/resources/kytea-model.bin", "probes": [], "cuts": True, "cut_step": 1})
    obs = vlib.run_replay(binp, send, "C17-kytea")
    bad = 0
    ncuts = 0
    for d in send:
        o = obs[d["id"]]
        shipped = d["id"] == len(cases)
        key = "shipped" if shipped else "km=" + json.dumps({k: v for k, v in cases[d["id"]]["km"].items() if k in ("char_w", "type_w", "dict_n", "n_dicts", "ntags")}) + f":c{len(cases[d['id']]['km']['char_ngrams'])}t{len(cases[d['id']]['km']['type_ngrams'])}w{len(cases[d['id']]['km']['words'])}"
        ctx.evaluations += 1
        if "abort" in o or o.get("res") != "ok":
            bad += 1
            ctx.violation(f"C17:{key}:convert:{o.get('res', 'abort')}", f"reading/converting the complete file failed: {str(o)[:200]}",
                          {"kind": "kytea", "case": d}, cls="C17:convert")
            continue
        if not shipped:
            c = cases[d["id"]]
            if c["km"]["words"]:
                ctx.nontriv(d["id"])
            if o.get("model") is None or canon(o["model"]) != canon(c["expect"]):
                bad += 1
                ctx.violation(f"C17:{key}:model", f"converted model {json.dumps(o.get('model'))[:400]} differs from VpKytea!Convert {json.dumps(c['expect'])[:400]}",
                              {"kind": "kytea", "case": d, "km": c["km"], "expect": c["expect"]}, cls="C17:model")
            elif o.get("probe_scores") != [p["scores"] for p in c["probes"]]:
                bad += 1
                ctx.violation(f"C17:{key}:scores", f"probe scores {o.get('probe_scores')} differ from RefScores {[p['scores'] for p in c['probes']]}",
                              {"kind": "kytea", "case": d, "km": c["km"]}, cls="C17:scores")
        for cut in o.get("cuts", []):
            ncuts += 1
            ctx.evaluations += 1
            ctx.nontriv((d["id"], cut["cut"]))
            # a prefix shorter than what the reader consumes of the complete file must be rejected; a cut inside an unread
            # tail may give the identical model
            okcut = (cut["res"] == "err") if cut["cut"] < o["consumed"] else (cut["res"] == "ok" and cut["same"])
            if not okcut:
                bad += 1
                ctx.violation(f"C17:{key}:cut{cut['cut']}:{cut['res']}", f"prefix of {cut['cut']} bytes (reader consumes {o['consumed']} of {o['len']}): "
                              f"outcome {cut['res']} same_model={cut['same']}", {"kind": "kytea", "case": d, "cut": cut["cut"]},
                              cls=f"C17:cut:{cut['res']}")
    ctx.add_part(kytea_files=len(send), prefixes_tried=ncuts, failing=bad, shipped_sample_consumed=obs[len(cases)].get("consumed"))
    tool(ctx, binp, send, obs, cases)
    ctx.sample({"abstract_kytea_model": cases[len(cases) // 2]["km"], "expected_converted": cases[len(cases) // 2]["expect"]})
    ctx.exhaustive = True


def tool(ctx, binp, send, obs, cases):
    """convert_kytea_model (the CLI) must write exactly the model the library conversion gives (Trace_Pair), and must fail
    cleanly (non-zero exit, no panic, no output) on truncated files."""
    import subprocess
    cli = vlib.build_cli()
    exe = os.path.join(cli, "convert_kytea_model")
    wd = os.path.join(vlib.WORK, "kytea")
    events = []
    pick = [d for d in send if d["id"] % (7 if ctx.quick else 2) == 0][: (40 if ctx.quick else 400)]
    for d in pick:
        o = obs[d["id"]]
        if o.get("res") != "ok" or not o.get("model"):
            continue
        outz = os.path.join(wd, f"conv{d['id']}.zst")
        for pth in (outz, outz + ".raw"):
            if os.path.exists(pth):
                os.remove(pth)
        p = subprocess.run([exe, "--model-in", d["path"], "--model-out", outz], stdout=subprocess.PIPE, stderr=subprocess.PIPE, env=vlib.cargo_env(), timeout=60)
        got = None
        if p.returncode == 0 and os.path.exists(outz):
            vlib.run_harness(binp, ["unzstd", outz, outz + ".raw"], name="unzstd")
            got = json.loads(vlib.run_harness(binp, ["decode", outz + ".raw"], name="decode"))
        events.append({"id": d["id"], "ev": "pair", "ok": p.returncode == 0 and got is not None, "a": canon(o["model"]), "b": canon(got) if got else {}})
        ctx.evaluations += 1
        # truncated input: the middle of the file
        data = open(d["path"], "rb").read()
        cut = os.path.join(wd, f"cut{d['id']}.bin")
        open(cut, "wb").write(data[: max(1, int(o["consumed"]) // 2)])
        if os.path.exists(outz):
            os.remove(outz)
        p2 = subprocess.run([exe, "--model-in", cut, "--model-out", outz], stdout=subprocess.PIPE, stderr=subprocess.PIPE, env=vlib.cargo_env(), timeout=60)
        ctx.evaluations += 1
        if p2.returncode == 0 or p2.returncode == 101 or p2.returncode < 0 or os.path.exists(outz):
            ctx.violation(f"C17:tool:truncated:{d['id']}", f"convert_kytea_model on a truncated file: exit {p2.returncode}, output written: {os.path.exists(outz)}; "
                          f"stderr {p2.stderr.decode(errors='replace')[-200:]}", {"kind": "kytea-tool", "case": d}, cls=f"C17:tool:truncated:{p2.returncode}")
    # a file larger than the tool's read buffer (convert_kytea_model reads through a BufReader): tool = library
    import sys as _sys
    _sys.path.insert(0, os.path.join(vlib.VERIF, "lib"))
    import kytea_writer
    letters = [ord(c) for c in "abcdefghijklmnopqrstuvwxyz"]
    big = {"char_w": 3, "type_w": 2, "dict_n": 2, "bias": 9, "n_dicts": 1, "ntags": 0,
           "char_ngrams": [{"ng": [a, b], "v": [((a * 31 + b * 7 + k * 13) % 2001) - 1000 for k in range(5)]} for a in letters for b in letters],
           "type_ngrams": [{"ng": [72], "v": [5, -3, 2, 1]}, {"ng": [82, 82], "v": [7, 8, -9]}],
           "dict_vec": [3, -4, 5, 6, -7, 8], "words": [{"w": [a, 0x3042, b], "mask": 1} for a in letters[:12] for b in letters[:12]]}
    # several byte alignments (padding in the character map): every kind of field gets to straddle a buffer boundary
    for pad in range(8 if ctx.quick else 16):
        bigp = os.path.join(wd, f"big{pad}.bin")
        open(bigp, "wb").write(kytea_writer.write(dict(big, pad=pad)))
        lib_big = vlib.run_replay(binp, [{"id": 0, "kind": "kytea", "path": bigp, "probes": [], "cuts": False}], "C17-big")[0]
        outz = os.path.join(wd, f"big{pad}.zst")
        for pth in (outz, outz + ".raw"):
            if os.path.exists(pth):
                os.remove(pth)
        p = subprocess.run([exe, "--model-in", bigp, "--model-out", outz], stdout=subprocess.PIPE, stderr=subprocess.PIPE, env=vlib.cargo_env(), timeout=120)
        got = None
        if p.returncode == 0 and os.path.exists(outz):
            vlib.run_harness(binp, ["unzstd", outz, outz + ".raw"], name="unzstd")
            got = json.loads(vlib.run_harness(binp, ["decode", outz + ".raw"], name="decode"))
        events.append({"id": 10 ** 6 + pad, "ev": "pair", "ok": p.returncode == 0 and got is not None and lib_big.get("res") == "ok",
                       "a": canon(lib_big["model"]) if lib_big.get("model") else {"x": 1}, "b": canon(got) if got else {}})
        ctx.evaluations += 1
    ctx.add_part(big_file_bytes=os.path.getsize(bigp), big_file_library=lib_big.get("res"), big_file_tool_exit=p.returncode,
                 big_file_entries=len(big["char_ngrams"]) + len(big["words"]), alignments=8 if ctx.quick else 16)
    ctx.evaluations += 1
    rej, _ = vlib.validate_trace(ctx, "C17-tool", "Trace_Pair", events)
    for rid in rej:
        ctx.violation(f"C17:tool:differs:{rid}", "the model written by convert_kytea_model differs from the library conversion of the same file",
                      {"kind": "kytea-tool", "id": rid}, cls="C17:tool:differs")
    ctx.add_part(convert_kytea_model_runs=len(events), rejected=len(rej))


def replay(ctx, path):
    raise vlib.ToolError("replay: re-run bin/check C17")
