"""C02 - tokens are a lossless, ordered partition of the text."""
import vlib

LEVEL = "model_checking"


def run(ctx):
    binp = vlib.build_harness()
    maxn = 9 if ctx.quick else 12
    ctx.rule = (f"every boundary label vector in {{N,W,U}}^(n-1), n<={maxn}, on texts cycling through 1-4 byte "
                "characters with one tag per character; non-trivial = vector containing at least one unknown label")
    # design level + generator: iterator state machine = reference tokens, partition laws
    cfg = vlib.cfg_text(constants={"MaxN": maxn, "Cumulative": False, "EmitCases": True},
                        invariants=["IterOk", "PartitionOk", "RefSound", "Emit"])
    res = vlib.tlc("C02-mc-tokens", "MC_Tokens", cfg)
    if res["violated"]:
        raise vlib.ToolError("MC_Tokens: design-level invariant violated: " + res["violated"])
    ctx.add_tlc(res, f"MC_Tokens: iterator state machine = RefTokens, partition laws, all vectors n<={maxn}")
    # spec mutant: the cumulative start must be rejected by TLC (non-vacuity)
    cfgm = vlib.cfg_text(constants={"MaxN": 7, "Cumulative": True, "EmitCases": False}, invariants=["IterOk"])
    resm = vlib.tlc("C02-mut-tokens", "MC_Tokens", cfgm)
    if resm["violated"] != "IterOk":
        raise vlib.ToolError("spec mutant (cumulative iterator start) was not rejected by TLC")
    ctx.add_part(spec_mutant="cumulative iterator start", rejected_by="IterOk")
    cases = vlib.nonempty(vlib.cases_from(res["out"]), "MC_Tokens")
    hcases = []
    for i, c in enumerate(cases):
        sent = c["sent"]
        hcases.append({"id": i, "ops": [{"op": "build", "sent": sent}], "opts": {"reparse": False},
                       "expect": [[{"res": "ok", "text": sent["text"], "bnd": sent["bnd"], "ntags": 1,
                                    "tags": sent["tags"], "tokens": c["tokens"]}]],
                       "key": ("bnd=" if sent["text"][0] == 97 else "special:bnd=") + "".join("NWU"[b] for b in sent["bnd"])})
        if 2 in sent["bnd"]:
            ctx.nontriv(tuple(sent["bnd"]))
        if i % 3001 == 7:
            ctx.sample({"bnd": sent["bnd"], "text": sent["text"], "expected_tokens": [[t["s"], t["e"]] for t in c["tokens"]]})
    ctx.evaluations += len(hcases)
    send = [{k: v for k, v in c.items() if k not in ("expect", "key")} for c in hcases]
    for d in send:
        d["kind"] = "history"
    obs = vlib.run_replay(binp, send, "C02-vectors")
    events = []
    for c, d in zip(hcases, send):
        o = obs[c["id"]]
        sig = None
        if "abort" in o or o.get("harness_panic"):
            sig, what, field = f"C02:{c['key']}:abort", "process ended abnormally", "abort"
        else:
            st = o["steps"][0]
            if not vlib.step_ok(st, c["expect"][0]):
                df = vlib.first_diff(st, c["expect"][0][0])
                field = df[0]
                sig = f"C02:{c['key']}:{field}"
                what = f"iter_tokens on {c['key']}: {field} expected {str(df[1])[:200]} observed {str(df[2])[:200]}"
            else:
                p = st["proj"]
                if p.get("wtok") == "panic":
                    sig, what, field = f"C02:{c['key']}:wtok", "write_tokenized_text panicked", "wtok-panic"
                else:
                    events.append({"id": c["id"], "ev": "wtok", "sent": c["ops"][0]["sent"], "wtok": p["wtok"]})
        if sig:
            ctx.violation(sig, what, {"kind": "history", "harness_case": d, "expect": c["expect"]}, cls="C02:" + field)
    rej, _ = vlib.validate_trace(ctx, "C02-wtok", "Trace_Writers", events)
    byid = {c["id"]: (c, d) for c, d in zip(hcases, send)}
    for rid in rej:
        c, d = byid[rid]
        ctx.violation(f"C02:{c['key']}:writer", "tokenized writer output does not parse back to the reference tokens",
                      {"kind": "history", "harness_case": d, "expect": c["expect"], "note": "writer clause: validated by Trace_Writers"},
                      cls="C02:writer")
    ctx.exhaustive = True


def replay(ctx, path):
    return vlib.replay_file(ctx, path)
