"""C05 - sentence parsers are total and leave a consistent sentence."""
import json
import vlib
from props import _lifecycle as L

LEVEL = "model_checking"

ALPHA = [97, 12354, 32, 47, 92, 45, 124, 0]   # a, あ, space, '/', '\', '-', '|', NUL


def string_cases(ctx, binp, maxlen):
    cfg = vlib.cfg_text(constants={"Alphabet": set(ALPHA), "MaxLen": maxlen}, invariants=["Emit", "Sane"])
    res = vlib.tlc("C05-gen-parse", "Gen_Parse", cfg)
    if res["violated"]:
        raise vlib.ToolError("Gen_Parse: specification sanity invariant violated: " + res["violated"])
    ctx.add_tlc(res, f"Gen_Parse: all strings over {len(ALPHA)} symbols up to length {maxlen}, expected outcome sets")
    cases = vlib.nonempty(vlib.cases_from(res["out"]), "Gen_Parse")
    hcases = []
    for i, c in enumerate(cases):
        s = c["s"]
        ops = [{"op": "new_raw", "s": s}, {"op": "new_tok", "s": s}, {"op": "new_part", "s": s},
               {"op": "up_tok", "s": c["dirty"]}, {"op": "up_raw", "s": s},
               {"op": "up_tok", "s": c["dirty"]}, {"op": "up_tok", "s": s},
               {"op": "up_tok", "s": c["dirty"]}, {"op": "up_part", "s": s}]
        exp = [c["new_raw"], c["new_tok"], c["new_part"], c["up_dirty"], c["up_raw"],
               c["up_dirty"], c["up_tok"], c["up_dirty"], c["up_part"]]
        hcases.append({"id": i, "ops": ops, "expect": exp, "key": "s=" + str(s)})
        ok = any(a["res"] == "ok" for k in ("new_tok", "new_part") for a in c[k])
        if ok:
            ctx.nontriv(("str", tuple(s)))
        if i % 997 == 0:
            ctx.sample({"string": s, "allowed_new_tok": c["new_tok"]}, limit=3)
    ctx.evaluations += len(hcases) * 9

    def sig(c, fail):
        op = c["ops"][fail[0]]["op"]
        return f"C05:str:{op}:{fail[1]}:{c['key']}"
    bad = vlib.check_histories(ctx, binp, "C05-strings", hcases, sigfn=sig)
    ctx.add_part(replayed="string cases", cases=len(hcases), steps=len(hcases) * 9, failing=bad)


def chartype_cases(ctx, binp):
    """The whole code space of planes 0-2 (all documented ranges and both sides of each of their ends) plus chunks of the
    higher planes: one sentence per chunk of 128 consecutive scalar values."""
    chunk = 128
    ks = set(range(0, 0x30000 // chunk)) | {0x30000 // chunk, 0x31350 // chunk, 0xE0000 // chunk, 0xE0100 // chunk, 0x10FF80 // chunk}
    cfg = vlib.cfg_text(constants={"Chunk": chunk, "Chunks": ks}, invariants=["Sane", "Emit"])
    res = vlib.tlc("C05-gen-chartypes", "Gen_CharTypes", cfg)
    if res["violated"]:
        raise vlib.ToolError("Gen_CharTypes: sanity invariant violated")
    cases = vlib.nonempty(vlib.cases_from(res["out"]), "Gen_CharTypes")
    ctx.add_tlc(res, f"Gen_CharTypes: {len(cases)} sentences covering every scalar value of planes 0-2 and samples of the higher planes")
    hcases = []
    for i, c in enumerate(cases):
        ops = [{"op": "new_raw", "s": c["s"]}, {"op": "up_tok", "s": [97, 47, 88]}, {"op": "up_raw", "s": c["s"]}]
        hcases.append({"id": i, "ops": ops, "expect": [c["new_raw"], None, c["up_raw"]], "opts": {"writers": False},
                       "key": "chunk@%X" % c["s"][0]})
        if len(set(c["new_raw"][0]["types"])) > 1:
            ctx.nontriv(("ct", c["s"][0]))
    ctx.evaluations += 2 * len(hcases)

    def sig(c, fail):
        return f"C05:chartypes:{c['key']}:{fail[1]}"
    bad = vlib.check_histories(ctx, binp, "C05-chartypes", hcases, sigfn=sig)
    ctx.add_part(replayed="character-type chunks", cases=len(hcases), failing=bad)


def run(ctx):
    binp = vlib.build_harness()
    ctx.rule = ("every string over {a, あ, space, /, \\, -, |, NUL} up to the length bound through 3 constructors "
                "and 3 updates (updates applied to a tagged sentence); every scalar value of planes 0-2 (+ samples above) through the raw "
                "constructor/update with the character types of the documented table; non-trivial = string accepted by the "
                "tokenized or partial reader")
    string_cases(ctx, binp, 5 if ctx.quick else 6)
    chartype_cases(ctx, binp)
    # histories: every call sequence up to the depth over the operation pool; C05 judges the state after every
    # update / constructor / reset_tags call (the prediction-related steps are judged by C08)
    L.mutant(ctx)
    plans = [(3, 1)] if ctx.quick else [(3, 1), (4, 2)]
    for depth, pool in plans:
        cases, preds = L.generate(ctx, depth, pool)
        L.replay(ctx, binp, cases, preds, lambda op, probe: op["op"].startswith(("up_", "new_", "reset")),
                 f"C05-hist-d{depth}p{pool}", 14)
        for c in cases[::max(1, len(cases) // 3)][:2]:
            ctx.sample({"history": [L.opkey(o) for o in c["ops"]]})
        for c in cases:
            if any(o["op"] in ("up_tok", "up_part") for o in c["ops"][:-14]):
                ctx.nontriv(("hist", json.dumps(c["ops"][:-14])))
    L.random_histories(ctx, binp, 240 if ctx.quick else 6000, lambda o: o.startswith(("up_", "reset")))
    ctx.exhaustive = True


def replay(ctx, path):
    return vlib.replay_file(ctx, path)
