"""C12 - tag models reflect exactly the tags seen in training."""
import itertools
import json
import os
import vlib
from props import _train as T

LEVEL = "model_checking"

POOL = [("tok", "a/A/X"), ("tok", "a/B/Y"), ("tok", "a/A/X あ/C"), ("tok", "a/B/X あ"), ("tok", "a/A/Y aあ/D/Z"), ("tok", "aあ/D a"), ("tok", "a あ"),
        ("part", "a/A|あ-a/B/X"), ("tok", "あ/C/X あ/E/X"), ("tok", "1/N"), ("tok", "a/A あ/C/X 1/N/M"),
        ("part", "a/Q あ|1/N"), ("tok", "aa/F/G a/A"), ("tok", "あ//X a//Y")]
DICTS = [[], [("tok", "b/M/K 1/N")], [("tok", "b/M c//K"), ("tok", "b/Z")]]
BASE = [("tok", "aあ 1 aa"), ("tok", "あa1 a")]   # untagged sentences that give the boundary learner both classes


def line(x):
    return {"fmt": x[0], "s": T.cps(x[1])}


def design(ctx):
    """Design level (TLC only): the class-offset layout of a tag model makes the reference tag scorer compute the per-category
    classifiers; the mutant that advances the offset for single-candidate categories is rejected."""
    consts = {"Layouts": {1, 2, 3, 4, 5}, "CNs": {1, 2}, "TNs": {1, 2}, "Alphabet": {97, 12354}, "MaxText": 4 if ctx.quick else 5,
              "OffsetCountsFixed": False}
    res = vlib.tlc("C12-mc-tagtrainer", "MC_TagTrainer", vlib.cfg_text(constants=consts, invariants=["ModelComputesClassifiers", "VectorSizes"]),
                   timeout=3000)
    if res["violated"]:
        raise vlib.ToolError("MC_TagTrainer: design-level invariant violated: " + res["violated"])
    ctx.add_tlc(res, "MC_TagTrainer: class-offset layout => stored candidate scores = learned classifiers, 5 category layouts x n-gram sizes, "
                     "every text up to the bound")
    consts["OffsetCountsFixed"] = True
    resm = vlib.tlc("C12-mut-tagtrainer", "MC_TagTrainer", vlib.cfg_text(constants=consts, invariants=["ModelComputesClassifiers"]))
    if resm["violated"] != "ModelComputesClassifiers":
        raise vlib.ToolError("spec mutant (class offset advanced for single-candidate categories) was not rejected by TLC")
    ctx.add_part(spec_mutant="class offset advanced for single-candidate categories", rejected_by="ModelComputesClassifiers")


def run(ctx):
    binp = vlib.build_harness()
    design(ctx)
    q = ctx.quick
    ctx.rule = ("corpora = subsets (size <= 3, thorough <= 4) of a pool of tagged sentences (tokens with 0..2 categories, absent tags, "
                "ambiguous tags, partially annotated lines) + tag dictionaries (tokens that only appear there); TLC (Gen_Inventory) "
                "computes the expected inventory with the specification's readers; each corpus is trained for real and Trace_Train "
                "checks candidate lists (as sets, each tag once), score-vector sizes, the consequences on prediction for every "
                "evaluation text, and stored candidate scores = learned quantised classifier on the trainer's tag features; "
                "non-trivial = corpus with at least one ambiguous token")
    pool = POOL[:11] if q else POOL
    corpora = []
    for r in range(1, (3 if q else 4) + 1):
        for comb in itertools.combinations(range(len(pool)), r):
            corpora.append(comb)
    if q:
        corpora = corpora[::2]
    # dedicated corpora: a first category that is perfectly balanced in identical contexts (its classifier is exactly zero)
    # followed by a category that the context decides
    special = [[("tok", "a/A/X あ"), ("tok", "a/B/X あ"), ("tok", "a/A/Y 1"), ("tok", "a/B/Y 1")],
               [("tok", "あ/P/S a"), ("tok", "あ/Q/S a"), ("tok", "あ/P/T 1"), ("tok", "あ/Q/T 1"), ("tok", "あ/P/T 1a")]]
    pool = list(pool)
    for sp in special:
        idx = []
        for x in sp:
            pool.append(x)
            idx.append(len(pool) - 1)
        for _ in range(3):
            corpora.append(tuple(idx))       # three times: run with solvers 5, 6 (L1: exactly-zero classifiers) and 1
    nspecial = 3 * len(special)
    cases = []
    for i, comb in enumerate(corpora):
        d = DICTS[i % len(DICTS)]
        cfgs = [(2, 2, 2, 2), (1, 3, 2, 1), (3, 1, 1, 2)]
        cw, cn, tw, tn = cfgs[i % len(cfgs)]
        cases.append({"id": i, "corpus": [line(pool[k]) for k in comb], "tagdict": [line(x) for x in d],
                      "cfg": {"cw": cw, "cn": cn, "tw": tw, "tn": tn, "dict": [], "dn": 2},
                      "solver": [5, 6, 1][(len(corpora) - 1 - i) % 3] if i >= len(corpora) - nspecial else [1, 1, 5, 3][i % 4]})
    wd = os.path.join(vlib.WORK, "record")
    os.makedirs(wd, exist_ok=True)
    cp = os.path.join(wd, "C12-corpora.ndjson")
    with open(cp, "w") as f:
        for c in cases:
            f.write(json.dumps({"id": c["id"], "corpus": c["corpus"], "tagdict": c["tagdict"]}) + "\n")
    chains = min(48, len(cases))
    res = vlib.tlc("C12-gen-inventory", "Gen_Inventory", vlib.cfg_text(constants={"Chains": chains}, invariants=["Emit"]),
                   env_extra={"CASES": cp}, jvm=["-Xss1g", "-XX:+UseParallelGC"])
    invs = {c["id"]: c for c in vlib.nonempty(vlib.cases_from(res["out"]), "Gen_Inventory")}
    ctx.add_tlc(res, f"Gen_Inventory: expected tag inventories of {len(cases)} corpora (parsed by the specification's readers)")
    if len(invs) != len(cases) or not all(v["parsed"] for v in invs.values()):
        raise vlib.ToolError("Gen_Inventory: a corpus line was not parsed by the specification")
    evals = T.eval_texts([97, 12354, 49], 3 if q else 4)
    send = []
    for c in cases:
        send.append({"id": c["id"], "kind": "train", "cfg": dict(c["cfg"], solver=c["solver"], eps=0.01, cost=1.0),
                     "corpus": [line(x) for x in BASE] + c["corpus"], "tagdict": c["tagdict"], "eval": evals})
    obs = vlib.run_replay(binp, send, "C12-train")
    events = []
    for c, d in zip(cases, send):
        o = obs[d["id"]]
        if "abort" in o or o.get("train") != "ok" or not o.get("model"):
            ctx.add_part(skipped=c["id"], reason=f"no model: {o.get('train', o.get('abort'))} (totality is C11's property)")
            continue
        evs = []
        for x in o["eval"]:
            tv = x.get("tags")
            ok = isinstance(tv, dict) and isinstance(tv.get("tokens"), list) and all(isinstance(t, dict) and isinstance(t.get("tags"), list) for t in tv["tokens"])
            toks = []
            has = False
            if ok:
                for t in tv["tokens"]:
                    cands = t.get("cands", [])
                    if not isinstance(cands, list):
                        cands = []
                    else:
                        has = has or "cands" in t
                    toks.append({"s": t["s"], "e": t["e"], "surf": t["surf"], "tags": t["tags"], "cands": cands})
            evs.append({"text": x["text"], "ok": ok, "has_cands": bool(ok and tv.get("ntags", 0) > 0 and has), "tokens": toks})
            ctx.evaluations += 1
        inv = invs[c["id"]]["inv"]
        if any(len(cat) >= 2 for t in inv for cat in t["cats"]):
            ctx.nontriv(c["id"])
        events.append({"id": c["id"], "ev": "inventory", "train": "ok", "model_ok": True, "model": o["model"], "inv": inv,
                       "cfg": c["cfg"], "tagq": o["tagq"], "evals": evs})
    rej, _ = vlib.validate_trace(ctx, "C12-inventory", "Trace_Train", events, chunk=300)
    byid = {c["id"]: c for c in cases}
    evid = {e["id"]: e for e in events}
    for rid in rej:
        c = byid[rid]
        e = evid[rid]
        got = [{"token": "".join(map(chr, t["token"])), "cats": [["".join(map(chr, x)) for x in cat] for cat in t["cats"]], "nbias": len(t["bias"])}
               for t in e["model"]["tags"]]
        want = [{"token": "".join(map(chr, t["token"])), "cats": [["".join(map(chr, x)) for x in cat] for cat in t["cats"]]} for t in e["inv"]]
        ctx.violation(f"C12:corpus={[''.join(map(chr, x['s'])) for x in c['corpus']]}:dict={[''.join(map(chr, x['s'])) for x in c['tagdict']]}:cfg={c['cfg']['cn']}{c['cfg']['tn']}",
                      f"trained tag models {got} vs expected inventory {want} (or prediction consequences / candidate scores differ)",
                      {"kind": "train", "case": send[rid]}, cls="C12:" + ("inventory" if sorted(json.dumps(x, sort_keys=True) for x in [{'token': g['token'], 'cats': [sorted(c_) for c_ in g['cats']]} for g in got]) != sorted(json.dumps(x, sort_keys=True) for x in [{'token': w['token'], 'cats': [sorted(c_) for c_ in w['cats']]} for w in want]) else "prediction-or-scores"))
    if events:
        e = events[len(events) // 2]
        ctx.sample({"corpus": ["".join(map(chr, x["s"])) for x in byid[e["id"]]["corpus"]], "expected_inventory": e["inv"]})
    ctx.add_part(corpora=len(cases), validated=len(events), rejected=len(rej))


def replay(ctx, path):
    raise vlib.ToolError("replay: re-run bin/check C12")
