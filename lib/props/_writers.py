"""Shared machinery for the writer round trips (C03 tokenized, C04 partial annotation)."""
import json
import vlib

A1 = {97, 32, 47, 92, 12354, 128512}            # a, space, /, \, あ, 😀
A2 = {97, 12354, 45, 124, 32}                   # a, あ, -, |, space


def gen_sentences(ctx, name, alphabet, labels, maxn, ntags, rowids, invariants):
    cfg = vlib.cfg_text(constants={"Alphabet": set(alphabet), "LabelSet": set(labels), "MaxN": maxn,
                                   "NTags": ntags, "RowIds": set(rowids)},
                        invariants=["Emit"] + invariants)
    res = vlib.tlc(name, "Gen_Sent", cfg)
    if res["violated"]:
        raise vlib.ToolError(f"Gen_Sent: the specification's own round-trip theorem {res['violated']} fails")
    ctx.add_tlc(res, f"Gen_Sent: sentences n<={maxn}, |alphabet|={len(alphabet)}, labels={sorted(labels)}, "
                     f"ntags={ntags}, rows={sorted(rowids)}; theorems {invariants} hold on every one")
    return vlib.nonempty(vlib.cases_from(res["out"]), "Gen_Sent " + name)


def observe(binp, name, sents):
    send = [{"id": i, "kind": "history", "ops": [{"op": "build", "sent": s}], "opts": {"reparse": True}}
            for i, s in enumerate(sents)]
    obs = vlib.run_replay(binp, send, name)
    return send, obs


def round_trip(ctx, binp, which, sents, tag):
    """which: 'tok' or 'part'.  sents: sentences (for 'tok' without unknown labels)."""
    prop = ctx.prop
    send, obs = observe(binp, f"{prop}-{tag}", sents)
    events = []
    for d in send:
        o = obs[d["id"]]
        s = d["ops"][0]["sent"]
        key = f"text={s['text']};bnd={s['bnd']};tags={s['tags']}"
        if "abort" in o or o.get("harness_panic") or o["steps"][0]["res"] != "ok":
            ctx.violation(f"{prop}:{which}:abort:{key}", "building/writing the sentence ended abnormally",
                          {"kind": "history", "harness_case": d, "expect": [None]}, cls=f"{prop}:abort")
            continue
        p = o["steps"][0]["proj"]
        w = p.get("wtok" if which == "tok" else "wpart")
        if w == "panic" or p == "panic":
            ctx.violation(f"{prop}:{which}:writer-panic:{key}", "writer panicked",
                          {"kind": "history", "harness_case": d, "expect": [None]}, cls=f"{prop}:writer-panic")
            continue
        if which == "tok":
            events.append({"id": d["id"], "ev": "roundtok", "sent": s, "wtok": w, "wtok_utf8": p["wtok_utf8"],
                           "rtok": p["rtok"]})
        else:
            events.append({"id": d["id"], "ev": "roundpart", "sent": s, "wpart": w, "wpart_utf8": p["wpart_utf8"],
                           "rpart": p["rpart"]})
        if any(any(t for t in row) for row in s["tags"]) or any(c in (32, 47, 92, 45, 124) for c in s["text"]):
            ctx.nontriv((which, str(s)))
    ctx.evaluations += len(send)
    rej, noted = vlib.validate_trace(ctx, f"{prop}-{tag}", "Trace_Writers", events)
    byid = {d["id"]: d for d in send}
    evid = {e["id"]: e for e in events}
    for rid in rej:
        d = byid[rid]
        s = d["ops"][0]["sent"]
        e = evid[rid]
        key = f"text={s['text']};bnd={s['bnd']};tags={s['tags']}"
        side = "reader-or-writer"
        if rid in noted:
            side = "writer (the specification's reader also fails to read the output back)"
        ctx.violation(f"{prop}:{which}:roundtrip:{key}",
                      f"round trip differs; written={e.get('wtok', e.get('wpart'))} reparsed={e.get('rtok', e.get('rpart'))}; deviating side: {side}",
                      {"kind": "roundtrip", "which": which, "sent": s}, cls=f"{prop}:roundtrip")
    for i, e in enumerate(events[:2000:400]):
        ctx.sample({"sentence": e["sent"], "written": e.get("wtok", e.get("wpart"))})
    ctx.add_part(round_trip=which, sentences=len(send), rejected=len(rej),
                 spec_reader_disagrees_with_real_round_trip=len([n for n in noted if n not in rej]))


def idempotence(ctx, binp, which, maxlen, alphabet):
    """write o parse idempotent on every accepted string (strings from Gen_Parse's enumeration)."""
    prop = ctx.prop
    cfg = vlib.cfg_text(constants={"Alphabet": set(alphabet), "MaxLen": maxlen}, invariants=["EmitS"])
    res = vlib.tlc(f"{prop}-gen-strings", "Gen_Parse", cfg)
    ctx.add_tlc(res, f"Gen_Parse: strings up to length {maxlen} over {sorted(alphabet)}")
    strings = [c["s"] for c in vlib.cases_from(res["out"]) if c["s"]]
    op = "new_tok" if which == "tok" else "new_part"
    send = [{"id": i, "kind": "history", "ops": [{"op": op, "s": s}], "opts": {"reparse": True}}
            for i, s in enumerate(strings)]
    obs = vlib.run_replay(binp, send, f"{prop}-idem")
    events = []
    for d in send:
        o = obs[d["id"]]
        if "abort" in o or o.get("harness_panic"):
            ctx.violation(f"{prop}:idem:abort:{d['ops'][0]['s']}", "abnormal end",
                          {"kind": "history", "harness_case": d, "expect": [None]}, cls=f"{prop}:abort")
            continue
        st = o["steps"][0]
        if st["res"] != "ok":
            continue
        p = st["proj"]
        w1 = p.get("wtok" if which == "tok" else "wpart")
        w2 = p.get("wtok2" if which == "tok" else "wpart2")
        okw = isinstance(w1, list) and isinstance(w2, list)
        events.append({"id": d["id"], "ev": "idem" + which, "s": d["ops"][0]["s"], "okw": okw,
                       "w1": w1 if okw else [], "w2": w2 if okw else [], "raw": [str(w1)[:80], str(w2)[:80]]})
        ctx.nontriv(("idem", tuple(d["ops"][0]["s"])))
    ctx.evaluations += len(send)
    rej, noted = vlib.validate_trace(ctx, f"{prop}-idem", "Trace_Writers", events)
    evid = {e["id"]: e for e in events}
    byid = {d["id"]: d for d in send}
    for rid in rej:
        e = evid[rid]
        ctx.violation(f"{prop}:idem:{e['s']}", f"write(parse(s))={e['w1']} but write(parse(that))={e['w2']}",
                      {"kind": "history", "harness_case": byid[rid], "expect": [None], "note": "idempotence"},
                      cls=f"{prop}:idem")
    ctx.add_part(idempotence=which, strings=len(send), accepted=len(events), rejected=len(rej),
                 spec_reader_notes=len(noted))
    if events:
        ctx.sample({"string": events[len(events) // 2]["s"], "write_parse": events[len(events) // 2]["w1"]})


def random_round_trips(ctx, binp, which, n):
    """Seeded random sentences over a wide character pool (white-space look-alikes, delimiters, 1-4 byte characters)."""
    events = vlib.record_parallel(binp, "sentences", n, ctx.seed, f"{ctx.prop}-rand")
    want = "roundtok" if which == "tok" else "roundpart"
    events = [e for e in events if e.get("ev") in (want, "panic", "abort")]
    for i, e in enumerate(events):
        e["id"] = i
        if e.get("ev") == "panic" and which not in e.get("what", which):
            e["ev"] = "skip"
    events = [e for e in events if e["ev"] != "skip"]
    for i, e in enumerate(events):
        e["id"] = i
    ctx.evaluations += len(events)
    rej, noted = vlib.validate_trace(ctx, f"{ctx.prop}-rand", "Trace_Writers", events)
    byid = {e["id"]: e for e in events}
    for e in events:
        if e.get("sent", {}).get("ntags"):
            ctx.nontriv(("rnd", e["id"]))
    for rid in rej:
        e = byid[rid]
        s = e.get("sent")
        ctx.violation(f"{ctx.prop}:{which}:random-roundtrip:seed{e.get('driver_seed')}:{json.dumps(s)[:300]}",
                      f"random sentence does not round-trip: written={e.get('wtok', e.get('wpart'))} reparsed={e.get('rtok', e.get('rpart'))}",
                      {"kind": "roundtrip", "which": which, "sent": s}, cls=f"{ctx.prop}:random-roundtrip")
    ctx.add_part(random_round_trip=which, events=len(events), rejected=len(rej), seed=ctx.seed)
