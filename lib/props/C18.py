"""C18 - no input drives the unchecked code out of bounds."""
import json
import vlib
from props import _score, C06, C14, C15

LEVEL = "exploration"


def run(ctx):
    dbg = vlib.build_harness()                               # dev profile: debug assertions + std's unchecked-precondition checks
    rel = vlib.build_harness(profile="release", target_sub="release")
    ctx.rule = ("executions generated from the specification (C01/C06 model families, random models/texts/histories, writer and filter "
                "cases) run in a build with debug assertions (get_unchecked*/unwrap_unchecked/str::get_unchecked preconditions and the "
                "crate's debug_assert!s are checked; a failure aborts or panics) and in an optimised build; any panic/abort, and any "
                "String left holding invalid UTF-8 by the byte-level writers, is a violation, and Trace_Pair requires both builds to observe the same values (thorough: also an AddressSanitizer build); "
                "design level: MC_ScorerImpl proves IndicesInRange and MatchEndsOnCharBoundary on the implementation-shaped scorer "
                "model; non-trivial = history with a non-bias score")
    # design level
    from props import _impl
    _impl.design(ctx)
    # generated executions
    cases = []
    sc = _score.generate(ctx, True, only=["F3-wide-windows", "F6-mixed", "F7-type-gaps", "F5-dictionary"])
    stride = max(1, len(sc) // (200 if ctx.quick else 1500))
    for fam, c in sc[::stride]:
        c = dict(c, runs=c["runs"][len(cases) % 3::max(1, len(c["runs"]) // 8)][:10])
        cases.append(_score.to_history(len(cases), fam, c))
    tg = C06.generate(ctx, True)
    stride = max(1, len(tg) // (150 if ctx.quick else 1000))
    for fam, c in tg[::stride]:
        c = dict(c, runs=c["runs"][len(cases) % 3::max(1, len(c["runs"]) // 8)][:10])
        cases.append(C06.to_history(len(cases), fam, c))
    send = []
    for h in cases:
        d = {k: v for k, v in h.items() if k not in ("expect", "key", "pred_expect")}
        d["kind"] = "history"
        d["opts"] = {"writers": True, "reparse": False}
        send.append(d)
    gen = vlib.record_events(dbg, "gencases", 700 if ctx.quick else 5000, ctx.seed, "C18-gencases")
    for g in gen:
        g.pop("with_tags")
        g["id"] = 10 ** 6 + g["id"]
        g["opts"] = {"writers": True, "reparse": True}
        g["ops"] = g["ops"][:9]
        send.append(g)
    # the same executions through a predictor that was serialised and deserialised (self-produced bytes)
    ser = []
    for d in send:
        if "preds" in d and (d["id"] % 3 == 0 or d["preds"][0].get("tags")):
            e = dict(d, id=4 * 10 ** 6 + len(ser), preds=[dict(p, serde=True, trail=[7]) for p in d["preds"]])
            ser.append(e)
    send += ser[:: max(1, len(ser) // (500 if ctx.quick else 5000))]
    # filters on class-rich texts with every label (grapheme / line-break / type filters use unchecked indexing)
    fl = C15.gen(ctx, "c18-filters", [97, 769, 8205, 128104, 127471, 13, 10, 12354], {1, 2}, 4 if ctx.quick else 5, ["G", "L", "H"])
    for c in fl[:: max(1, len(fl) // (700 if ctx.quick else 5000))]:
        ops = []
        for f in ("G", "L", "H", "O"):
            ops += [{"op": "build", "sent": {"text": c["text"], "bnd": c["bnd"], "ntags": 1,
                                             "tags": [[[88]] for _ in c["text"]]}}, {"op": "filter", "f": f}]
        send.append({"id": 2 * 10 ** 6 + len(send), "kind": "history", "ops": ops, "opts": {"writers": True, "reparse": False}})
    # call histories on one object (updates in the three formats, several predictors, fill_tags at any point, hand-set labels):
    # the scratch state the unchecked code indexes (per-position automaton states, tag tables) must fit the current text
    from props import _lifecycle as L
    lc, preds = L.generate(ctx, 3, 1)
    risky = [c for c in lc if any(o["op"] == "fill_tags" for o in c["ops"][:-14])]
    rest = [c for c in lc if not any(o["op"] == "fill_tags" for o in c["ops"][:-14])]
    for c in risky[:: (1 if len(risky) < 2500 or not ctx.quick else 2)] + rest[:: max(1, len(rest) // (300 if ctx.quick else 3000))]:
        send.append({"id": 3 * 10 ** 6 + len(send), "kind": "history", "preds": preds, "ops": c["ops"], "opts": {"writers": True, "reparse": False}})
    o_dbg = vlib.run_replay(dbg, send, "C18-debug")
    o_rel = vlib.run_replay(rel, send, "C18-release")
    o_asan = None
    if not ctx.quick:
        try:
            asan = vlib.build_harness(profile="release", target_sub="asan", toolchain="nightly", rustflags="-Zsanitizer=address",
                                      target_triple="x86_64-unknown-linux-gnu")
            o_asan = vlib.run_replay(asan, send, "C18-asan")
        except vlib.BuildError as e:
            ctx.add_part(asan="build failed (tool limitation, not a verdict): " + str(e)[-200:])
    events = []
    meta = {}
    for d in send:
        x, y = o_dbg[d["id"]], o_rel[d["id"]]
        bad = None
        for name, o in (("debug-assertions", x), ("release", y)) + ((("asan", o_asan[d["id"]]),) if o_asan else ()):
            if "abort" in o or o.get("harness_panic"):
                bad = f"{name} build: process aborted (rc={o.get('abort')}) - an unchecked precondition / sanitizer check failed"
            elif any(s["res"] == "panic" or s.get("proj") == "panic" or (isinstance(s.get("proj"), dict) and
                     any(s["proj"].get(k) == "panic" for k in ("tokens", "wtok", "wpart", "scores"))) for s in o.get("steps", [])):
                bad = f"{name} build: a call panicked"
            elif any(isinstance(s.get("proj"), dict) and (s["proj"].get("wtok_utf8") is False or s["proj"].get("wpart_utf8") is False)
                     for s in o.get("steps", [])):
                bad = f"{name} build: a writer left invalid UTF-8 in the caller's String (unchecked byte-level writes)"
        ctx.evaluations += 1
        if "steps" in x and any(isinstance(s["proj"], dict) and len(set(s["proj"].get("scores") or [])) > 1 for s in x["steps"]):
            ctx.nontriv(d["id"])
        if bad:
            ctx.violation(f"C18:case{d['id']}:{bad[:30]}", bad + f"; ops {json.dumps(d['ops'][:3])[:300]}", {"kind": "history", "harness_case": d, "expect": [None]},
                          cls="C18:" + bad[:40])
            continue
        eid = len(events)
        events.append({"id": eid, "ev": "pair", "ok": True, "a": x["steps"], "b": y["steps"]})
        meta[eid] = d
        if o_asan:
            eid = len(events)
            events.append({"id": eid, "ev": "pair", "ok": True, "a": x["steps"], "b": o_asan[d["id"]]["steps"]})
            meta[eid] = d
    rej, _ = vlib.validate_trace(ctx, "C18-pairs", "Trace_Pair", events, chunk=1500)
    for rid in rej:
        d = meta[rid]
        ctx.violation(f"C18:case{d['id']}:diverge", "debug-assertion build and optimised build observe different values (undefined behaviour or "
                      f"checked/unchecked divergence); ops {json.dumps(d['ops'][:3])[:300]}", {"kind": "history", "harness_case": d, "expect": [None]},
                      cls="C18:diverge")
    ctx.sample({"ops": send[0]["ops"][:3], "builds": ["dev (debug assertions, UB checks)", "release"] + (["asan"] if o_asan else [])})
    ctx.add_part(histories=len(send), builds=2 + (1 if o_asan else 0), rejected=len(rej))


def replay(ctx, path):
    return vlib.replay_file(ctx, path)
