"""C03 - tokenized text format round-trips."""
import vlib
from props import _writers as W

LEVEL = "model_checking"


def run(ctx):
    binp = vlib.build_harness()
    ctx.rule = ("sentences enumerated by TLC (text over {a,space,/,\\,あ,😀}, labels {N,W}, tag rows from a pool with the "
                "format's delimiters) written by the real writer and re-read by the real reader, relation judged by "
                "Trace_Writers; plus idempotence of write-after-parse on every enumerated string; non-trivial = "
                "sentence with a tag or a special character / string accepted by the parser")
    thm = ["SpecRoundTripTok", "SpecIdemTok"]
    sents = []
    if ctx.quick:
        plans = [(W.A1, 3, 0, [1]), (W.A1, 2, 2, range(1, 9)), ({97, 47}, 3, 2, [2, 4, 5, 7])]
    else:
        plans = [(W.A1, 4, 0, [1]), (W.A1, 2, 2, range(1, 9)), (W.A1, 3, 2, [2, 4, 5, 7, 8]), (W.A1, 3, 1, [2, 4, 5])]
    for k, (alpha, maxn, ntags, rows) in enumerate(plans):
        cs = W.gen_sentences(ctx, f"C03-gen{k}", alpha, {0, 1}, maxn, ntags, rows, thm)
        sents += [c["sent"] for c in cs]
    W.round_trip(ctx, binp, "tok", sents, "round")
    W.random_round_trips(ctx, binp, "tok", 6000 if ctx.quick else 80000)
    W.idempotence(ctx, binp, "tok", 5 if ctx.quick else 6, {97, 12354, 32, 47, 92, 0})
    ctx.exhaustive = True


def replay(ctx, path):
    import json
    rep = json.load(open(path))
    if rep["replay"].get("kind") == "roundtrip":
        W.round_trip(ctx, vlib.build_harness(), rep["replay"]["which"], [rep["replay"]["sent"]], "replay")
        return ctx.finish()
    return vlib.replay_file(ctx, path)
