"""C06 - predicted tags equal the per-token linear classifiers."""
import vlib
from props import C01

LEVEL = "model_checking"


def plans(quick):
    A, HI, ONE = 97, 12354, 49
    if quick:
        return {
            "T1-one-model": dict(Ws={1, 2}, Layouts1={2, 3, 5}, Layouts2={9}, BaseKinds={0, 1}, K=2, CPool={1, 2, 3}, TPool={1, 2},
                                 TextAlpha={A, HI}, MaxText=4, Tie=False, Swap=False),
            "T2-two-models": dict(Ws={2}, Layouts1={0, 1, 4}, Layouts2={2, 3, 6}, BaseKinds={3}, K=2, CPool={1, 2, 6}, TPool={3, 4},
                                  TextAlpha={A, HI, ONE}, MaxText=3, Tie=False, Swap=True),
            "T3-ties": dict(Ws={1}, Layouts1={2, 3}, Layouts2={2}, BaseKinds={0, 2}, K=1, CPool={1, 2}, TPool={1},
                            TextAlpha={A, HI}, MaxText=4, Tie=True, Swap=False),
        }
    return {
        "T1-one-model": dict(Ws={1, 2}, Layouts1={2, 3, 4, 5, 6}, Layouts2={9}, BaseKinds={0, 1, 2}, K=3, CPool={1, 2, 3, 4}, TPool={1, 2},
                             TextAlpha={A, HI}, MaxText=4, Tie=False, Swap=False),
        # (sized to stay below ~25 GB of resident memory per family: the cases of one family are held while they are replayed)
        "T2-two-models": dict(Ws={2}, Layouts1={0, 1, 2, 4}, Layouts2={2, 3, 6}, BaseKinds={0, 3}, K=2, CPool={1, 2, 6}, TPool={1, 3, 4},
                              TextAlpha={A, HI, ONE}, MaxText=3, Tie=False, Swap=True),
        "T3-ties": dict(Ws={1, 2}, Layouts1={2, 3}, Layouts2={2, 9}, BaseKinds={0, 2}, K=2, CPool={1, 2}, TPool={1},
                        TextAlpha={A, HI}, MaxText=4, Tie=True, Swap=False),
    }


def generate(ctx, quick, only=None):
    out = []
    for name, consts in plans(quick).items():
        if only and name not in only:
            continue
        cfg = vlib.cfg_text(constants=consts, invariants=["WF", "Emit"])
        res = vlib.tlc(f"{ctx.prop}-gen-{name}", "Gen_Tags", cfg, timeout=3000)
        if res["violated"]:
            raise vlib.ToolError(f"Gen_Tags {name}: generated model not well-formed")
        cases = vlib.nonempty(vlib.cases_from(res["out"]), f"Gen_Tags {name}")
        res["out"] = ""          # (the printed cases are large; keep only the counters)
        ctx.add_tlc(res, f"Gen_Tags family {name}: {len(cases)} models x {len(cases[0]['runs'])} texts, expected tags and "
                         "candidate scores by RefTagRows/RefTokenCands")
        out += [(name, c) for c in cases]
    return out


def to_history(i, fam, c, store=True):
    ops, exp = [], []
    for j, r in enumerate(c["runs"]):
        if j % 2 == 1 and c["nt"] > 0:
            # a sentence object that already carries (stale) tags and labels: fill_tags must replace them all
            t = r["text"]
            first = {"op": "build", "sent": {"text": t, "bnd": [[1, 2, 0][(k + j) % 3] for k in range(len(t) - 1)],
                                             "ntags": 3, "tags": [[[81], [], [82, 82]] for _ in t]}}
        else:
            first = {"op": "up_raw", "s": r["text"]}
        ops += [first, {"op": "predict", "p": 0},
                {"op": "fill_tags", "cands": store and c["nt"] > 0}]
        e = dict(r["expect"])
        if not (store and c["nt"] > 0):
            e["tokens"] = [{k: v for k, v in t.items() if k != "cands"} for t in e["tokens"]]
        exp += [None, None, [e]]
        if j % 3 == 0 and len(r["text"]) >= 2 and "expect2" in r:
            # labels edited by hand (incl. unknown), then fill_tags again on the same prediction
            e2 = dict(r["expect2"])
            if not (store and c["nt"] > 0):
                e2["tokens"] = [{k: v for k, v in t.items() if k != "cands"} for t in e2["tokens"]]
            ops += [{"op": "set_bnd", "v": r["bnd2"]}, {"op": "fill_tags", "cands": store and c["nt"] > 0}]
            exp += [None, [e2]]
    m = c["model"]
    key = f"{fam}:w{m['cw']}:base{len(m['cng'])}{len(m['tng'])}{len(m['dict'])}:tags=" + ";".join(
        "".join(map(chr, t["token"])) + ":" + ",".join(str(len(x)) for x in t["cats"]) + ":c" +
        ",".join("".join(map(chr, e["ng"])) + "@" + "/".join(str(w["rel"]) for w in e["tw"]) for e in t["cng"]) + ":t" +
        ",".join("".join(map(str, e["ng"])) + "@" + "/".join(str(w["rel"]) for w in e["tw"]) for e in t["tng"])
        for t in m["tags"])
    return {"id": i, "preds": [{"model": m, "tags": True, "store": store}], "pred_expect": ["ok"], "ops": ops,
            "expect": exp, "opts": {"writers": False}, "key": key}


def run(ctx):
    binp = vlib.build_harness()
    ctx.rule = ("tag-model families enumerated by TLC (0..2 tag models, category layouts with 0..3 candidates, every set of "
                "<=K tag n-gram entries at relative positions 0..window, boundary part possibly empty, ties) x all texts of "
                "the family alphabet; plus seeded random models/texts with boundaries from prediction or set by hand "
                "(incl. unknown); non-trivial = (model,text) pair in which some token has a tag model")
    def sig(c, fail):
        return f"C06:{c['key']}:step{fail[0]}:{fail[1]}"
    total = bad = 0
    # one family at a time (generate, replay, compare, discard): the thorough tier has several 10^6 (model, text) pairs
    for fam_name in plans(ctx.quick):
        cases = generate(ctx, ctx.quick, only=[fam_name])
        hcases = []
        for (fam, c) in cases:
            i = total + len(hcases)
            # every third model through a predictor that does NOT store candidate scores (the tags must be the same)
            hcases.append(to_history(i, fam, c, store=(i % 3 != 2)))
            toks = [tuple(t["token"]) for t in c["model"]["tags"]]
            for r in c["runs"]:
                ctx.evaluations += 1
                if any(tuple(t["surf"]) in toks for t in r["expect"]["tokens"]):
                    ctx.nontrivial_count += 1
            if i % 301 == 5:
                r = c["runs"][-1]
                ctx.sample({"family": fam, "tag_models": c["model"]["tags"], "text": r["text"], "expected_tokens": r["expect"]["tokens"]}, limit=3)
        del cases
        bad += vlib.check_histories(ctx, binp, f"C06-{fam_name}", hcases, sigfn=sig)
        total += len(hcases)
        del hcases
    ctx.add_part(replayed="tag model families", models=total, failing_models=bad)
    C01.random_traces(ctx, binp, kind="tags", n_models=500 if ctx.quick else 8000)


def replay(ctx, path):
    return vlib.replay_file(ctx, path)
