"""C16 - normalisation keeps character positions; search tokens tile the original text."""
import vlib

LEVEL = "model_checking"


def run(ctx):
    binp = vlib.build_harness()
    q = ctx.quick
    ctx.rule = ("normaliser: the image of every Unicode scalar value (1,112,064) is observed and the laws (one character out, "
                "idempotent, character-wise on strings) are checked by Trace_C16 on the observed table and on strings over its "
                "domain/range; Tantivy: TLC-enumerated models x wsconst strings x texts (half-width, CR/LF, multi-byte, empty) with "
                "the expected token stream, plus random models/texts whose stream must tile the text and break where the library "
                "pipeline breaks; non-trivial = string containing a table character / text with at least two tokens")
    # ---- S->I: Tantivy adapter, enumerated
    consts = {"TextAlpha": {97, 49, 12354, 28450, 128512, 13, 10, 45, 65293} if not q else {97, 49, 12354, 128512, 10, 45, 65293},
              "MaxText": 4 if not q else 3, "WsLetters": "{" + ", ".join('"%s"' % c for c in ("DRHTKOG" if not q else "DRHOG")) + "}",
              "MaxWs": 2, "ModelIds": {1, 2, 3, 4}}
    cfg = vlib.cfg_text(constants=consts, invariants=["Laws", "Emit"])
    res = vlib.tlc("C16-gen-tantivy", "Gen_Tantivy", cfg, timeout=3000)
    if res["violated"]:
        raise vlib.ToolError("Gen_Tantivy: the specification's token stream violates the tiling laws")
    cases = vlib.nonempty(vlib.cases_from(res["out"]), "Gen_Tantivy")
    ctx.add_tlc(res, f"Gen_Tantivy: {len(cases)} (model, wsconst) pairs x {len(cases[0]['runs'])} texts; tiling laws hold for the expected streams")
    send = []
    for i, c in enumerate(cases):
        # the empty text once more at the end: a tokenizer that was already used must still yield no token for it
        c["runs"].append({"text": [], "tokens": []})
        send.append({"id": i, "kind": "tantivy", "model": c["model"], "wsconst": "".join(c["wsconst"]),
                     "texts": [r["text"] for r in c["runs"]]})
    obs = vlib.run_replay(binp, send, "C16-tantivy")
    bad = 0
    for c, d in zip(cases, send):
        o = obs[d["id"]]
        if "abort" in o or o.get("res") != "ok":
            ctx.violation(f"C16:tantivy:ws={d['wsconst']}:construct", f"tokenizer construction / process: {o}",
                          {"kind": "tantivy", "case": d}, cls="C16:tantivy:construct")
            bad += 1
            continue
        for r, ro in zip(c["runs"], o["runs"]):
            ctx.evaluations += 1
            if len(r["tokens"]) >= 2:
                ctx.nontriv(("tv", d["id"], tuple(r["text"])))
            if ro["tokens"] != r["tokens"] or ro.get("tokens_deserialized") != r["tokens"]:
                bad += 1
                ctx.violation(f"C16:tantivy:model{c['model']['bias']}:ws={d['wsconst']}:text={r['text']}",
                              f"token stream for text {r['text']} wsconst '{d['wsconst']}': expected {r['tokens']} observed {str(ro['tokens'])[:300]}; from the deserialised tokenizer {str(ro.get('tokens_deserialized'))[:300]}",
                              {"kind": "tantivy", "case": dict(d, texts=[r["text"]]), "expect": [r["tokens"]]}, cls="C16:tantivy:stream")
    ctx.add_part(replayed="tantivy cases", pairs=len(cases), failing_texts=bad)
    ctx.sample({"wsconst": send[-1]["wsconst"], "text": cases[-1]["runs"][-1]["text"], "expected_tokens": cases[-1]["runs"][-1]["tokens"]})
    # ---- I->S: normaliser over all scalars + strings; random Tantivy streams
    ev1 = vlib.record_events(binp, "normalise", 1500 if q else 30000, ctx.seed, "C16-normalise")
    table = ev1[0]
    ev2 = vlib.record_parallel(binp, "tantivy", 300 if q else 8000, ctx.seed, "C16-tantivy-rand", jobs=4)
    events = ev1 + ev2
    for i, e in enumerate(events):
        e["id"] = i
    dom = {p["c"] for p in table.get("pairs", [])}
    for e in events:
        ctx.evaluations += 1
        if e.get("ev") == "str" and any(c in dom for c in e["s"]):
            ctx.nontriv(("s", e["id"]))
        if e.get("ev") == "tantivy" and len(e.get("tokens", [])) >= 2:
            ctx.nontriv(("t", e["id"]))
    # every chunk needs the table event first (Pairs == Rec[1].pairs)
    rej = []
    chunk = 4000
    for ci in range(0, len(events), chunk):
        part = events[ci:ci + chunk]
        if part[0] is not table:
            part = [table] + part
        r, noted = vlib.validate_trace(ctx, f"C16-trace-{ci // chunk}", "Trace_C16", part, chunk=chunk + 1,
                                       invariant="Check")
        rej += r
        _ = noted
    byid = {e["id"]: e for e in events}
    for rid in sorted(set(rej)):
        e = byid[rid]
        if e["ev"] == "table":
            what = f"the observed normaliser map (scanned {e['scanned']} scalars, {len(e['pairs'])} changed) breaks a law: " \
                   f"pairs with len!=1: {[p for p in e['pairs'] if len(p['out']) != 1][:3]}; images that are remapped: " \
                   f"{[p for p in e['pairs'] if p['out'] and p['out'][0] in dom][:3]}"
            ctx.violation("C16:normaliser:table", what, {"kind": "normaliser-table"}, cls="C16:table")
        elif e["ev"] == "str":
            ctx.violation(f"C16:normaliser:str:{e['s']}", f"filter({e['s']}) = {e['out']}, twice = {e['out2']}", {"kind": "normaliser-str", "event": e},
                          cls="C16:str")
        else:
            ctx.violation(f"C16:tantivy:random:seed{e.get('driver_seed')}:id{rid}",
                          f"text {e.get('text')} wsconst {e.get('wsconst')}: stream {str(e.get('tokens'))[:300]} vs library labels {e.get('lib')}",
                          {"kind": "tantivy-random", "event": e}, cls="C16:tantivy:random")
    ctx.add_part(normaliser_scalars_scanned=table.get("scanned"), changed=len(table.get("pairs", [])), string_events=len(ev1) - 1,
                 tantivy_random_events=len(ev2), rejected=len(set(rej)))
    ctx.sample({"normaliser_pair": table["pairs"][:2], "string_event": ev1[5] if len(ev1) > 5 else None})
    ctx.exhaustive = True


def replay(ctx, path):
    raise vlib.ToolError("replay: re-run bin/check C16")
