"""C04 - partial-annotation format round-trips."""
import vlib
from props import _writers as W

LEVEL = "model_checking"


def run(ctx):
    binp = vlib.build_harness()
    ctx.rule = ("sentences enumerated by TLC (text over {a,あ,-,|,space}, labels {N,W,U}, tags on every character from a "
                "pool containing / - | space and backslash) written by the real partial-annotation writer and re-read by "
                "the real reader, relation judged by Trace_Writers; non-trivial = sentence with a tag or a delimiter character")
    thm = ["SpecRoundTripPart", "SpecIdemPart"]
    sents = []
    if ctx.quick:
        plans = [(W.A2, 3, 0, [1]), (W.A2, 2, 2, range(1, 9)), ({97, 45}, 3, 2, [2, 4, 6, 7]), ({97}, 3, 1, [1, 2, 4, 5, 6])]
    else:
        plans = [(W.A2, 4, 0, [1]), (W.A2, 2, 2, range(1, 9)), (W.A2, 3, 2, [2, 4, 5, 6, 7]), (W.A2, 3, 1, [1, 2, 4, 5, 6])]
    for k, (alpha, maxn, ntags, rows) in enumerate(plans):
        cs = W.gen_sentences(ctx, f"C04-gen{k}", alpha, {0, 1, 2}, maxn, ntags, rows, thm)
        sents += [c["sent"] for c in cs]
    W.round_trip(ctx, binp, "part", sents, "round")
    W.random_round_trips(ctx, binp, "part", 6000 if ctx.quick else 80000)
    ctx.exhaustive = True


def replay(ctx, path):
    import json
    rep = json.load(open(path))
    if rep["replay"].get("kind") == "roundtrip":
        W.round_trip(ctx, vlib.build_harness(), rep["replay"]["which"], [rep["replay"]["sent"]], "replay")
        return ctx.finish()
    return vlib.replay_file(ctx, path)
