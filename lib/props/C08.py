"""C08 - reusing a sentence or sharing a predictor never changes results."""
import json
import os
import subprocess
import vlib
from props import _lifecycle as L

LEVEL = "model_checking"


def schedules_design(ctx):
    cfg = vlib.cfg_text(constants={"NThreads": 2, "SharedScratch": False, "Calls": 2 if not ctx.quick else 1},
                        invariants=["ResultsCorrect"])
    res = vlib.tlc("C08-mc-concurrent", "MC_Concurrent", cfg)
    if res["violated"]:
        raise vlib.ToolError("MC_Concurrent: design-level invariant violated")
    ctx.add_tlc(res, "MC_Concurrent: all interleavings of 2 threads stepping through predict on a shared predictor")
    cfgm = vlib.cfg_text(constants={"NThreads": 2, "SharedScratch": True, "Calls": 1}, invariants=["ResultsCorrect"])
    resm = vlib.tlc("C08-mut-concurrent", "MC_Concurrent", cfgm)
    if resm["violated"] != "ResultsCorrect":
        raise vlib.ToolError("spec mutant (scratch buffer shared between threads) was not rejected by TLC")
    ctx.add_part(spec_mutant="shared scratch buffer", rejected_by="ResultsCorrect")


def threads_trace(ctx):
    try:
        binp = vlib.build_harness(package="vpt")
    except vlib.BuildError as e:
        # the main harness builds (checked by the caller) but the thread driver does not: Predictor is no longer
        # Send + Sync (or cannot be shared by reference between threads)
        ctx.violation("C08:threads:compile", "the thread driver sharing &Predictor between threads does not compile: " + str(e)[-400:],
                      {"kind": "compile", "crate": "vpt"}, cls="C08:compile")
        return
    nthreads, iters = (8, 20) if ctx.quick else (16, 160)   # x 10 fresh predictors per run
    out = os.path.join(vlib.WORK, "record", "C08-threads.ndjson")
    os.makedirs(os.path.dirname(out), exist_ok=True)
    p = subprocess.run([binp, str(nthreads), str(iters), str(ctx.seed), out], env=vlib.cargo_env(),
                       stdout=subprocess.PIPE, stderr=subprocess.PIPE, timeout=1800)
    events = [json.loads(x) for x in open(out)] if os.path.exists(out) else []
    if p.returncode != 0:
        ctx.violation("C08:threads:abort", f"thread driver ended abnormally rc={p.returncode}", {"kind": "threads", "seed": ctx.seed},
                      cls="C08:threads")
        return
    wd = os.path.join(vlib.WORK, "trace", "C08-threads")
    os.makedirs(wd, exist_ok=True)
    cfg = vlib.cfg_text(postcondition="Consumed")
    res = vlib.tlc("C08-threads-trace", "Trace_Concurrent", cfg, workers=1, env_extra={"TRACE": out},
                   jvm=["-Xss1g", "-XX:+UseParallelGC"], timeout=3000)
    ctx.add_tlc(res, f"Trace_Concurrent: {len(events)} begin/end events of {nthreads} real threads on shared predictors")
    ctx.traces += len(events)
    ctx.evaluations += len([e for e in events if e["ev"] == "end"])
    rej = vlib.cases_from(res["out"], "REJECT")
    byid = {e["id"]: e for e in events}
    for r in rej:
        e = byid.get(r["id"], {})
        ctx.violation(f"C08:threads:seed{ctx.seed}:id{r['id']}", f"event {r['id']} ({e.get('ev')}, thread {e.get('t')}) not explained: "
                      "the result of a concurrent call differs from the reference result of its own text",
                      {"kind": "threads", "seed": ctx.seed, "event": e}, cls="C08:threads")
    ctx.sample({"thread_events": [{k: v for k, v in e.items() if k != "model"} for e in events[1:4]]})
    ctx.add_part(threads=nthreads, calls=len([e for e in events if e["ev"] == "end"]), rejected=len(rej),
                 note="real-thread interleavings are sampled, not enumerated")


def run(ctx):
    binp = vlib.build_harness()
    ctx.rule = ("every history of API calls up to the depth over the operation pool (three formats incl. failing updates, "
                "reset_tags, three predictors, fill_tags, hand-set labels, filters) followed by probe sequences "
                "update_raw(x); predict(p); [fill_tags] on the same object; TLC proves reused = fresh on the model and the "
                "real object is compared with the model after every prediction-related step; plus real threads sharing one "
                "predictor validated by Trace_Concurrent; non-trivial = history containing a prediction or tagged update")
    plans = [(3, 1)] if ctx.quick else [(3, 1), (4, 2)]
    for depth, pool in plans:
        cases, preds = L.generate(ctx, depth, pool)
        L.replay(ctx, binp, cases, preds, lambda op, probe: probe or not op["op"].startswith(("up_", "new_", "reset")),
                 f"C08-hist-d{depth}p{pool}", 14)
        for c in cases[::max(1, len(cases) // 3)][:2]:
            ctx.sample({"history": [L.opkey(o) for o in c["ops"]]})
        for c in cases:
            if any(o["op"] in ("predict", "up_tok", "up_part") for o in c["ops"][:-14]):
                ctx.nontriv(json.dumps(c["ops"][:-14]))
    # deeper, specification only: every history of depth 4 (quick) / 5 (thorough) over the small pool keeps Shape and
    # HistoryIndependence (no replay: these runs extend the model-checked part beyond what is replayed)
    deep = 4 if ctx.quick else 5
    cfg = vlib.cfg_text(constants={"Depth": deep, "KeepNTagsMutant": False, "EmitCases": False, "PoolSel": 2},
                        invariants=["ShapeInv", "HistoryIndependence"])
    res = vlib.tlc(f"C08-mc-lifecycle-deep{deep}", "MC_Lifecycle", cfg, timeout=3400)
    if res["violated"]:
        raise vlib.ToolError(f"MC_Lifecycle depth {deep}: design-level invariant {res['violated']} violated")
    ctx.add_tlc(res, f"MC_Lifecycle (specification only): all histories of depth {deep} over the small pool; Shape and HistoryIndependence hold")
    L.random_histories(ctx, binp, 240 if ctx.quick else 6000,
                       lambda o: o in ("predict", "fill_tags", "set_bnd", "filter", "up_raw"))
    # one sentence object re-used across texts of recurring lengths with a tag-predicting, score-storing predictor:
    # every recorded result must be the reference result of its own text (stale per-position state must not leak)
    from props import C01
    C01.random_traces(ctx, binp, kind="tags", n_models=400 if ctx.quick else 6000)
    schedules_design(ctx)
    threads_trace(ctx)


def replay(ctx, path):
    return vlib.replay_file(ctx, path)
