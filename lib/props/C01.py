"""C01 - boundary scores and decisions equal the pointwise linear model."""
import vlib
from props import _score

LEVEL = "model_checking"


def run(ctx):
    binp = vlib.build_harness()
    ctx.rule = ("families of models enumerated by TLC (all sets of <=K entries from pools of character n-grams, type "
                "n-grams and words; windows on both sides of the 8-slot and window-3 switches) x all texts of the family "
                "alphabet up to the bound, expected values by RefScore; non-trivial = (model,text) pair where at least one "
                "boundary score differs from the bias")
    # design level: the implementation-shaped scorer (suffix merge, longest-match iteration, padded buffer, cache) refines RefScore
    from props import _impl
    _impl.design(ctx)
    def sig(c, fail):
        return f"C01:{c['key']}:step{fail[0]}:{fail[1]}"
    total_models = total_bad = 0
    # one family at a time (generate, replay, compare, discard): the thorough tier has ~10^6 (model, text) pairs
    for fam_name in _score.families(ctx.quick):
        cases = _score.generate(ctx, ctx.quick, only=[fam_name])
        hcases = []
        for i, (fam, c) in enumerate(cases):
            hcases.append(_score.to_history(i, fam, c))
            for r in c["runs"]:
                ctx.evaluations += 1
                if any(s != c["model"]["bias"] for s in r["expect"]["scores"]):
                    ctx.nontrivial_count += 1
            if i % 401 == 3:
                r = c["runs"][-1]
                ctx.sample({"family": fam, "model": c["model"], "text": r["text"], "expected_scores": r["expect"]["scores"]}, limit=4)
        _score._cache.pop((fam_name, ctx.quick), None)
        del cases
        total_bad += vlib.check_histories(ctx, binp, f"C01-{fam_name}", hcases, sigfn=sig)
        total_models += len(hcases)
        del hcases
    ctx.add_part(replayed="model families", models=total_models, failing_models=total_bad)
    random_traces(ctx, binp)


def random_traces(ctx, binp, kind="score", n_models=None):
    n_models = n_models or (700 if ctx.quick else 12000)
    events = vlib.record_parallel(binp, kind, n_models, ctx.seed, f"{ctx.prop}-{kind}")
    rej, _ = vlib.validate_trace(ctx, f"{ctx.prop}-{kind}-trace", "Trace_Score", events, chunk=6000)
    byid = {e["id"]: e for e in events}
    for e in events:
        if e.get("ev") in ("predict", "tags"):
            ctx.evaluations += 1
            if any(x != e["model"]["bias"] for x in e.get("scores", [])):
                ctx.nontriv(("rnd", e["id"]))
    for rid in rej:
        e = byid[rid]
        what = f"recorded event {e.get('ev')} not explained by the specification (driver seed {e.get('driver_seed')})"
        ctx.violation(f"{ctx.prop}:trace:{e.get('ev')}:seed{e.get('driver_seed')}:id{rid}", what,
                      {"kind": "event", "module": "Trace_Score", "event": e}, cls=f"{ctx.prop}:trace:{e.get('ev')}")
    if events:
        e = events[len(events) // 3]
        ctx.sample({"recorded_event": {k: e[k] for k in e if k != "model"}, "model_entries":
                    len(e.get("model", {}).get("cng", [])) + len(e.get("model", {}).get("tng", [])) + len(e.get("model", {}).get("dict", []))})
    ctx.add_part(random_trace=kind, events=len(events), rejected=len(rej), seed=ctx.seed)


def replay(ctx, path):
    return vlib.replay_file(ctx, path)
