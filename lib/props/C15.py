"""C15 - post-filters apply exactly their rule and nothing else."""
import vlib

LEVEL = "model_checking"

# representatives of the grapheme classes (see VpFilters!GClass)
GCL = [13, 10, 1, 769, 8205, 127471, 1536, 2307, 4352, 4449, 4520, 44032, 44033, 128104, 97]
TYPES = [49, 97, 12354, 12450, 28450, 167]     # 1 a あ ア 漢 §


def gen(ctx, name, alphabet, labels, maxn, filters):
    cfg = vlib.cfg_text(constants={"Alphabet": set(alphabet), "LabelSet": set(labels), "MaxN": maxn,
                                   "Filters": "{" + ", ".join('"%s"' % f for f in filters) + "}"},
                        invariants=["Meta", "RuleExact", "Emit"])
    res = vlib.tlc(f"C15-gen-{name}", "Gen_Filter", cfg, timeout=3000)
    if res["violated"]:
        raise vlib.ToolError(f"Gen_Filter {name}: meta-property {res['violated']} fails on the specification")
    cases = vlib.nonempty(vlib.cases_from(res["out"]), "Gen_Filter " + name)
    ctx.add_tlc(res, f"Gen_Filter {name}: {len(cases)} sentences x filters {filters}; OnlyRuleBoundariesChange and Idempotent hold")
    return cases


def gen_long(ctx, name, alphabet, maxperiod, lens, filters):
    cfg = vlib.cfg_text(constants={"Alphabet": set(alphabet), "MaxPeriod": maxperiod, "Lens": set(lens),
                                   "Filters": "{" + ", ".join('"%s"' % f for f in filters) + "}"},
                        invariants=["Meta", "Emit"])
    res = vlib.tlc(f"C15-genlong-{name}", "Gen_FilterLong", cfg, timeout=3000)
    if res["violated"]:
        raise vlib.ToolError(f"Gen_FilterLong {name}: meta-property {res['violated']} fails on the specification")
    cases = vlib.nonempty(vlib.cases_from(res["out"]), "Gen_FilterLong " + name)
    ctx.add_tlc(res, f"Gen_FilterLong {name}: {len(cases)} periodic sentences of lengths {sorted(lens)} x filters {filters}")
    return cases


def run(ctx):
    binp = vlib.build_harness()
    q = ctx.quick
    ctx.rule = ("every sentence over the family alphabet up to the length bound x every label vector: (a) grapheme filter over 15 "
                "class representatives (CR LF Control Extend ZWJ RI Prepend SpacingMark L V T LV LVT ExtPict Other), UAX#29 rules "
                "transcribed in VpFilters; (b) six character-type filters over {1,a,あ,ア,漢,§}; (c) line-break filter over "
                "{a,CR,LF,あ}; (c') periodic sentences of 15..34 (thorough ..65) characters; (d) pattern tagger over rule tables; each filter applied twice (idempotence); non-trivial = case in "
                "which the filter changes at least one label or tag")
    plans = [
        ("grapheme", GCL, {1}, 3 if q else 4, ["G"]),
        ("grapheme-labels", [97, 769, 8205, 128104, 127471, 13, 10], {0, 1, 2}, 3 if q else 4, ["G"]),
        ("types", TYPES, {0, 1, 2}, 3 if q else 4, ["D", "R", "H", "T", "K", "O"]),
        ("linebreak", [97, 13, 10, 12354], {0, 1, 2}, 4 if q else 5, ["L"]),
        ("linebreak-lookalikes", [97, 10, 13, 11, 12, 0x85, 0x2028, 9], {0, 2}, 3 if q else 4, ["L"]),
        # cluster-extending characters whose CHARACTER TYPE is not Other (half-width voiced marks are Katakana), in sentences
        # without any Other-type character
        ("grapheme-kana-marks", [0xFF76, 0xFF9E, 0xFF9F, 12459, 12441, 97], {1, 2}, 3 if q else 4, ["G", "T"]),
    ]
    generated = [(name, gen(ctx, name, alpha, labels, maxn, filters)) for name, alpha, labels, maxn, filters in plans]
    # long sentences: lengths around the multiples of 8 / 16 / 32
    lens = [15, 16, 17, 18, 33] if q else [7, 8, 9, 15, 16, 17, 18, 31, 32, 33, 34, 65]
    generated.append(("long-types", gen_long(ctx, "types", TYPES, 2 if q else 3, lens, ["D", "R", "H", "T", "K", "O"])))
    generated.append(("long-grapheme", gen_long(ctx, "grapheme", [97, 769, 8205, 128104, 127471, 13, 10, 0xFF9E], 2 if q else 3, lens, ["G", "L"])))
    hcases = []
    for name, cases_ in generated:
        for c in cases_:
            ops, exp = [], []
            base = {"text": c["text"], "types": c["types"], "ntags": 0}
            changed = False
            for fe in c["exp"]:
                ops.append({"op": "build", "sent": {"text": c["text"], "bnd": c["bnd"], "ntags": 0}})
                exp.append([dict(base, res="ok", bnd=c["bnd"])])
                for _ in range(2):
                    ops.append({"op": "filter", "f": fe["f"]})
                    exp.append([dict(base, res="ok", bnd=fe["bnd"])])
                changed = changed or fe["bnd"] != c["bnd"]
                ctx.evaluations += 1
            hcases.append({"id": len(hcases), "ops": ops, "expect": exp, "opts": {"writers": False},
                           "key": f"{name}:text={c['text']}:bnd={c['bnd']}"})
            if changed:
                ctx.nontriv(len(hcases))
            if len(hcases) % 2503 == 1:
                ctx.sample({"family": name, "text": c["text"], "labels": c["bnd"], "expected": c["exp"][:2]})
    # pattern tagger
    cfg = vlib.cfg_text(constants={"MaxN": 3, "NTagsSet": {0, 1, 2}}, invariants=["Meta", "Emit"])
    res = vlib.tlc("C15-gen-ptag", "Gen_PTag", cfg)
    if res["violated"]:
        raise vlib.ToolError("Gen_PTag: meta-property fails on the specification")
    pc = vlib.cases_from(res["out"])
    ctx.add_tlc(res, f"Gen_PTag: {len(pc)} tagged sentences x 2 rule tables; present tags kept, idempotent")
    for c in pc:
        s = c["sent"]
        ops, exp = [], []
        for rules, e in ((c["r1"], c["e1"]), (c["r2"], c["e2"])):
            ops.append({"op": "build", "sent": s})
            exp.append(None)
            for _ in range(2):
                ops.append({"op": "filter", "f": "P", "rules": rules})
                exp.append([{"res": "ok", "text": s["text"], "bnd": s["bnd"], "ntags": s["ntags"], "tags": e}])
            ctx.evaluations += 1
            if e != s["tags"]:
                ctx.nontriv(("p", len(hcases), str(rules)[:20]))
        hcases.append({"id": len(hcases), "ops": ops, "expect": exp, "opts": {"writers": False},
                       "key": f"ptag:text={s['text']}:bnd={s['bnd']}:tags={s['tags']}"})

    def sig(c, fail):
        op = c["ops"][fail[0]]
        return f"C15:{c['key']}:{op.get('f', op['op'])}:{fail[1]}"
    bad = vlib.check_histories(ctx, binp, "C15-filters", hcases, sigfn=sig)
    ctx.add_part(replayed="filter cases", sentences=len(hcases), failing=bad)
    ctx.exhaustive = True


def replay(ctx, path):
    return vlib.replay_file(ctx, path)
