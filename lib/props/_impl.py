"""Design-level checks of the implementation-shaped scorer model (VpScorerImpl)."""
import vlib
from props import _score

A, HI, EMO, SEC = 97, 12354, 128512, 167


def design(ctx, quick=None):
    quick = ctx.quick if quick is None else quick
    fams = {
        "impl-char-suffix": _score.fam(CWs={1, 2}, CAlpha={A, HI}, MaxCLen=3, KC=2 if quick else 3, DAlpha={A, HI}, MaxDLen=2, KD=1, KTotal=2 if quick else 3,
                                       TextAlpha={A, HI}, MaxText=4),
        "impl-wide": _score.fam(CWs={4, 5, 8, 9}, TWs={4, 9}, CAlpha={A}, MaxCLen=2, KC=1, TAlpha={2}, MaxTLen=2, KT=1, KTotal=2,
                                TextAlpha={A}, MaxText=3, ZeroHit=False),
        "impl-type-cache": _score.fam(TWs={1, 2, 3, 4}, TAlpha={2, 3}, MaxTLen=3, KT=2, KTotal=2, TextAlpha={A, HI}, MaxText=4),
        "impl-bytes": _score.fam(CWs={2}, CAlpha={SEC, 0xA7 + 0x100, HI, EMO}, MaxCLen=2, KC=1, KTotal=1, TextAlpha={SEC, 0xA7 + 0x100, HI, EMO},
                                 MaxText=3),
    }
    for name, consts in fams.items():
        c = dict(consts, Merge=True)
        res = vlib.tlc(f"{ctx.prop}-mc-{name}", "MC_ScorerImpl", vlib.cfg_text(constants=c, invariants=["WF", "ImplEqualsRef", "InRangeInv", "ByteMatchInv"]),
                       timeout=3000)
        if res["violated"]:
            raise vlib.ToolError(f"MC_ScorerImpl {name}: design-level invariant {res['violated']} violated")
        if res["distinct"] < 2:
            raise vlib.ToolError(f"MC_ScorerImpl {name}: vacuous (no model states)")
        ctx.add_tlc(res, f"MC_ScorerImpl {name}: implementation-shaped scorer = RefScores, IndicesInRange, MatchEndsOnCharBoundary on "
                         f"{res['distinct']} models")
    # spec mutant: without the suffix merge, longest-match-only iteration loses the shorter entries
    c = dict(fams["impl-char-suffix"], Merge=False)
    resm = vlib.tlc(f"{ctx.prop}-mut-nomerge", "MC_ScorerImpl", vlib.cfg_text(constants=c, invariants=["ImplEqualsRef"]), timeout=3000)
    if resm["violated"] != "ImplEqualsRef":
        raise vlib.ToolError("spec mutant (no suffix merge) was not rejected by TLC")
    ctx.add_part(spec_mutant="scorer without suffix merge", rejected_by="ImplEqualsRef")
