"""C09 - a trained model computes exactly the function the learner produced."""
import itertools
import random
import vlib
from props import _train as T

LEVEL = "model_checking"


def configs(ctx):
    must = [(3, 3, 3, 3), (2, 2, 1, 1), (1, 1, 2, 2), (3, 2, 1, 3), (1, 3, 3, 1), (2, 3, 2, 3), (1, 2, 1, 2), (1, 2, 3, 3), (1, 1, 2, 3),
            (3, 3, 1, 2), (2, 0, 2, 2), (2, 2, 1, 0), (1, 0, 1, 0), (0, 0, 2, 2), (0, 2, 1, 1), (2, 2, 0, 0)]
    allc = list(itertools.product([1, 2, 3], repeat=4)) + [(2, 0, 2, 2), (2, 2, 1, 0), (1, 0, 1, 0), (3, 0, 1, 1), (0, 0, 2, 2), (0, 2, 1, 1), (2, 2, 0, 0), (0, 3, 0, 3)]
    if ctx.quick:
        rnd = random.Random(ctx.seed)
        rest = [c for c in allc if c not in must]
        return must + rnd.sample(rest, 5)
    return allc


def design(ctx):
    """Design level (TLC only): the weight layout the trainer uses makes the model compute the learned function, for every
    configuration of the family incl. differing windows; the mutant that uses the character window for type vectors is rejected."""
    q = ctx.quick
    consts = {"CWs": {1, 2, 3}, "CNs": {1, 3} if q else {1, 2, 3}, "TWs": {1, 2, 3}, "TNs": {1, 3}, "DictSel": {0, 6} if q else {0, 6, 14},
              "DNs": {1, 2}, "Alphabet": {97, 12354}, "MaxText": 3 if q else 4, "UseCharWindowForTypes": False}
    res = vlib.tlc("C09-mc-trainer", "MC_Trainer", vlib.cfg_text(constants=consts, invariants=["ModelComputesLearnedFunction", "OwnWindowLayout"]),
                   timeout=3000)
    if res["violated"]:
        raise vlib.ToolError("MC_Trainer: design-level invariant violated: " + res["violated"])
    ctx.add_tlc(res, f"MC_Trainer: weight layout => the model computes bias + sum of learned feature weights, {res['distinct'] // 2} configurations "
                     "incl. differing windows, every text up to the bound")
    consts.update({"UseCharWindowForTypes": True, "CNs": {1}, "DictSel": {0}, "DNs": {1}, "MaxText": 3})
    resm = vlib.tlc("C09-mut-trainer", "MC_Trainer", vlib.cfg_text(constants=consts, invariants=["ModelComputesLearnedFunction"]))
    if resm["violated"] != "ModelComputesLearnedFunction":
        raise vlib.ToolError("spec mutant (type vectors laid out with the character window) was not rejected by TLC")
    ctx.add_part(spec_mutant="type n-gram vectors sized/indexed with the character window", rejected_by="ModelComputesLearnedFunction")
    # unbounded: the slot arithmetic shared by trainer and scorer, proved for all integers (TLAPS)
    import os
    proved, total = vlib.tlapm("C09-slot-lemmas", os.path.join(vlib.SPEC, "proofs", "SlotLemmas.tla"))
    if proved != total:
        raise vlib.ToolError(f"SlotLemmas: only {proved} of {total} proof obligations discharged")
    ctx.add_part(tlaps="SlotLemmas: SlotAgreement, SlotInRangeIffInWindow, DictSlots, FixedVectorFits (slot written by the trainer = slot read by "
                       "the scorer; in-window <=> in-vector; dictionary sides; 7-slot padding suffices) for all integers",
                 obligations=total, discharged=proved)


def run(ctx):
    binp = vlib.build_harness()
    design(ctx)
    ctx.rule = ("real training runs (liblinear) over configurations (char window, char n, type window, type n) in 1..3 incl. "
                "differing windows and n > window, dictionaries {none, short words, words longer than the bucket}, buckets, two "
                "solvers, tokenized and partially annotated corpora; the learner's quantised output is read through the hooks and "
                "Trace_Train recomputes every boundary score of every evaluation text as bias + sum of learned weights of the "
                "trainer's features, and requires the learned function to be oriented as the annotation (some training boundary on the right "
                "side of 0); corpora whose first example is a non-boundary (K1) and a boundary (K2); non-trivial = (run, evaluation text) with at least two characters")
    dicts = [([], 4), ([T.cps("a"), T.cps("aあ")], 2), ([T.cps("a"), T.cps("aあa"), T.cps("1a")], 1), ([T.cps("あ"), T.cps("a1a")], 4),
             ([T.cps("a"), T.cps("あa"), T.cps("aあa")], 3),
             # a repeated word: Trainer::new may refuse it (then there is nothing to judge); if a model is returned it must
             # still compute the learned function
             ([T.cps("a"), T.cps("aあ"), T.cps("a")], 2)]
    # evaluation sentences: every text up to the bound, as partially annotated lines whose label pattern varies
    # (fully annotated, unknown first / last / in the middle); judged on their annotated boundaries
    evals = []
    for k, t in enumerate(T.eval_texts([97, 12354, 49], 3 if ctx.quick else 4)):
        sym = []
        for b in range(len(t) - 1):
            pat = k % 4
            unk = (pat == 1 and b == 0) or (pat == 2 and b == len(t) - 2) or (pat == 3 and b == (len(t) - 1) // 2)
            sym.append(32 if unk else (124 if (b + k) % 2 == 0 else 45))
        s = []
        for i, c in enumerate(t):
            s.append(c)
            if i < len(sym):
                s.append(sym[i])
        evals.append({"fmt": "part", "s": s})
    # longer sentences containing overlapping / suffix-related dictionary words
    for txt in ["a-あ-a|1-a", "1-a-あ a|a-あ-a", "a a あ|a-1|a", "a|あ-a-あ-a|a", "あ-a a-あ-a 1"]:
        evals.append({"fmt": "part", "s": T.cps(txt)})
    send = []
    for ci, (cw, cn, tw, tn) in enumerate(configs(ctx)):
        for di, (d, dn) in enumerate(dicts):
            if ctx.quick and (ci + di) % 2 == 1:
                continue
            for solver in ([1] if ctx.quick else [1, 5]):
                for cname in (["K1", "K2"] if ctx.quick else ["K1", "K2", "K3"]):
                    if ctx.quick and (ci + di + len(send)) % 2 == 1 and cname == "K2":
                        continue
                    # the training sentences themselves are evaluation sentences too (orientation of the learned function)
                    send.append({"id": len(send), "kind": "train", "cfg": {"cw": cw, "cn": cn, "tw": tw, "tn": tn, "dict": d, "dn": dn,
                                                                          "solver": solver, "eps": 0.01, "cost": 1.0},
                                 "corpus": T.CORPORA[cname], "tagdict": [], "eval": evals + T.CORPORA[cname], "n_plain_evals": len(evals),
                                 "corpus_name": cname})
    obs = vlib.run_replay(binp, send, "C09-train")
    events = []
    for d in send:
        o = obs[d["id"]]
        cfg = {k: d["cfg"][k] for k in ("cw", "cn", "tw", "tn", "dict", "dn")}
        key = f"cw{cfg['cw']}cn{cfg['cn']}tw{cfg['tw']}tn{cfg['tn']}:dict{len(cfg['dict'])}dn{cfg['dn']}:s{d['cfg']['solver']}:{d['corpus_name']}"
        d["key"] = key
        if "abort" in o or o.get("train") != "ok" or "q" not in o:
            # training did not return a model: totality is C11's property; nothing to judge here
            ctx.add_part(skipped=key, reason=f"no model (train={o.get('train', o.get('abort'))})")
            continue
        evs = []
        for xi, x in enumerate(o.get("eval", [])):
            nt = x.get("notags")
            ok = isinstance(nt, dict)
            fok = isinstance(x.get("feats"), list)
            evs.append({"text": x["text"], "ok": ok, "scores": nt["scores"] if ok else [], "labels": x.get("labels", []),
                        "feats_ok": fok, "feats": x["feats"] if fok else [], "is_train": xi >= d["n_plain_evals"]})
            ctx.evaluations += 1
            if len(x["text"]) >= 2:
                ctx.nontriv((d["id"], tuple(x["text"])))
        events.append({"id": d["id"], "ev": "function", "train": o["train"], "cfg": cfg, "q": o["q"], "qbias": o["qbias"],
                       "model_ok": o.get("model") is not None, "model": o.get("model") or {"cng": [], "tng": [], "dict": [], "cw": 0, "tw": 0},
                       "evals": evs})
    rej, _ = vlib.validate_trace(ctx, "C09-function", "Trace_Train", events, chunk=400)
    byid = {d["id"]: d for d in send}
    evid = {e["id"]: e for e in events}
    for rid in rej:
        d = byid[rid]
        e = evid[rid]
        m = e["model"]
        lay = [f"{''.join(map(str, x['ng']))}:{len(x['w'])}" for x in m.get("tng", [])][:4]
        ctx.violation(f"C09:{d['key']}", f"trained model does not compute bias + sum of learned feature weights (cw={m.get('cw')} tw={m.get('tw')}; "
                      f"type n-gram vector lengths {lay})", {"kind": "train", "case": {k: v for k, v in d.items() if k != 'key'}},
                      cls=f"C09:cw{'>' if d['cfg']['cw'] > d['cfg']['tw'] else ('<' if d['cfg']['cw'] < d['cfg']['tw'] else '=')}tw")
    if events:
        e = events[0]
        ctx.sample({"cfg": e["cfg"], "learned_features": len(e["q"]), "qbias": e["qbias"], "eval": e["evals"][-1]})
    ctx.add_part(training_runs=len(send), validated=len(events), rejected=len(rej))


def replay(ctx, path):
    raise vlib.ToolError("replay: re-run bin/check C09")
