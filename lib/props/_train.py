"""Shared data for the trainer checks (C09, C11, C12): corpora and configuration lists (inputs only)."""


def cps(s):
    return [ord(c) for c in s]


# boundary corpora (both classes present unless stated)
K_TOK = [{"fmt": "tok", "s": cps(x)} for x in ["aあ 1a a", "あ aa1", "1 aあa 1", "a あ 1", "aa あ1a"]]
K_PART = [{"fmt": "part", "s": cps(x)} for x in ["a|あ-a 1|a", "あ a-1|a", "1-1|a あ", "a|a"]]
K_KANJI = [{"fmt": "tok", "s": cps(x)} for x in ["漢字 の ab 12", "かな 漢 a1", "の漢字 ab"]]
CORPORA = {"K1": K_TOK, "K2": K_PART, "K3": K_TOK[:2] + K_PART[:2], "K4": K_KANJI}

# corpus classes for the totality sweep (C11)
TAGGED_UNAMB = [{"fmt": "tok", "s": cps(x)} for x in ["a/A あ/B", "あ/B a/A 1/N", "aあ/C a/A"]]
TAGGED_AMB = [{"fmt": "tok", "s": cps(x)} for x in ["a/A あ/B", "a/Z あ/B 1/N", "a/A/X あ/B/Y", "a/Q/X 1/N"]]
PART_TAGGED = [{"fmt": "tok", "s": cps(x)} for x in ["a/A あ", "a あ/B/Y", "a/Z あ 1"]]
CLASSES = {
    "empty": ([], []),
    "single-class": ([{"fmt": "tok", "s": cps("aあ1")}, {"fmt": "tok", "s": cps("あa")}], []),
    "single-class-w": ([{"fmt": "tok", "s": cps("a あ 1")}], []),
    "untagged": (K_TOK[:3], []),
    "tagged-unambiguous": (TAGGED_UNAMB, []),
    "tagged-ambiguous": (TAGGED_AMB, []),
    "partially-tagged": (PART_TAGGED, []),
    "partially-annotated": (K_PART[:3], []),
    "tagdict-only": (K_TOK[:2], [{"fmt": "tok", "s": cps("a/A あ/B/Y b/M")}]),
    "tagged-fixed-then-varying": ([{"fmt": "tok", "s": cps(x)} for x in ["a/A/X あ/B", "a/A/Y あ/B/K", "1/N a/A/X", "あ/B/K/M a/A/Y/P", "あ/B/K/L 1"]], []),
    "tagged-many-classes": ([{"fmt": "tok", "s": cps(x)} for x in ["a/A あ/B", "a/C あ/D", "a/E あ/F", "a/G a/H a/I", "a/J a/K a/L 1"]], []),
    "tagged-mixed-arity": ([{"fmt": "tok", "s": cps(x)} for x in ["a/A/X あ", "a/A/Y あ/B", "a/A 1", "あ/B/K a/Z", "1 a/Q あ/B/L"]], []),
    "final-period": ([{"fmt": "tok", "s": cps(x)} for x in ["aあ 1a a 。", "あ aa1 。", "1 aあa 1。", "a あ 。"]], []),
    "one-char-sentences": ([{"fmt": "tok", "s": cps("a")}, {"fmt": "tok", "s": cps("あ")}], []),
}


def eval_texts(alpha, maxlen):
    out = [[]]
    res = []
    for _ in range(maxlen):
        out = [p + [c] for p in out for c in alpha]
        res += out
    return res
