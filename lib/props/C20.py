"""C20 - command-line tools agree with the library, line by line."""
import itertools
import json
import os
import random
import subprocess
import vlib

LEVEL = "model_checking"

A, HI = 97, 12354
# two constant models: with and without tag models (n-grams keyed on normalised characters: a -> ａ = 65345)
M_PLAIN = {"bias": -1, "cw": 1, "tw": 1, "cng": [{"ng": [65345], "w": [5, -4]}, {"ng": [A], "w": [4, -6]}, {"ng": [HI], "w": [-2, 3]}],
           "tng": [{"ng": [2, 3], "w": [6]}], "dict": [{"ng": [HI, HI], "w": [3, -9, 3]}], "tags": []}
M_TAGS = dict(M_PLAIN, tags=[
    {"token": [65345], "cats": [[[65], [66]], [[67]]], "cng": [{"ng": [65345], "tw": [{"rel": 0, "w": [3, -3]}]}], "tng": [], "bias": [1, 2]},
    {"token": [A], "cats": [[[68], [69]]], "cng": [{"ng": [A, HI], "tw": [{"rel": 1, "w": [9, -9]}]}], "tng": [], "bias": [0, 1]},
    # tag strings containing the tokenized format's own delimiters (slash, space, backslash)
    {"token": [HI], "cats": [[[70, 47, 70]], [[71, 32, 71], [72, 92], [73]]], "cng": [], "tng": [{"ng": [3], "tw": [{"rel": 0, "w": [1, 5, 2]}]}], "bias": [2, 0, 1]}])

LINES = {"plain": "aああa", "multi": "あaあ", "half": "a1-b", "spaces": "a あ", "slash": "a/あ\\a", "empty": "", "nul": "a\0あ",
         "cr": "aあ\r", "trailsp": "aあ ", "trailfw": "あa\u3000", "blanks": "  ", "tabend": "a1\t", "one": "あ", "long": "ああaaあa1あ", "fullw": "あ｡あ～", "dash": "コ―ヒ－あ", "onea": "a", "oneslash": "/"}
# a model that splits everywhere (bias only) with tag models: filters that join tokens change which tokens exist
M_EVAL = {"bias": 5, "cw": 1, "tw": 1, "cng": [], "tng": [], "dict": [], "tags": [
    {"token": [HI], "cats": [[[70]], [[71], [72]]], "cng": [], "tng": [], "bias": [1, 2]},
    {"token": [A], "cats": [[[68], [69]]], "cng": [], "tng": [], "bias": [2, 1]},
    {"token": [65345], "cats": [[[68], [69]]], "cng": [], "tng": [], "bias": [2, 1]},
    # a token whose FIRST tag category is empty (the trainer produces such entries for corpus tokens like `1//X`)
    {"token": [49], "cats": [[], [[74], [75]]], "cng": [], "tng": [], "bias": [1, 2]},
    {"token": [65297], "cats": [[], [[74], [75]]], "cng": [], "tng": [], "bias": [1, 2]}]}


def stdin_of(names, final_newline):
    s = "\n".join(LINES[n] for n in names)
    if final_newline:
        s += "\n"
    return s


def run_predict(cli, model_path, flags, ws, data):
    args = ["--model", model_path]
    for f in ("no_norm", "predict_tags", "scores", "tag_scores"):
        if flags[f]:
            args.append("--" + f.replace("_", "-"))
    for w in ws:
        args += ["--wsconst", w]
    p = subprocess.run([os.path.join(cli, "predict")] + args, input=data.encode("utf-8"), stdout=subprocess.PIPE, stderr=subprocess.PIPE,
                       timeout=60, env=vlib.cargo_env())
    return p.returncode, p.stdout, p.stderr.decode(errors="replace")


def predict_tool(ctx, binp, cli, wd):
    q = ctx.quick
    models = {}
    for name, m in (("plain", M_PLAIN), ("tags", M_TAGS), ("eval", M_EVAL)):
        mj, mz = os.path.join(wd, name + ".json"), os.path.join(wd, name + ".zst")
        json.dump(m, open(mj, "w"))
        vlib.run_harness(binp, ["mkmodel", mj, mz], name="mkmodel")
        models[name] = (m, mz)
    flagnames = ["no_norm", "predict_tags", "scores", "tag_scores"]
    allflags = [dict(zip(flagnames, bits)) for bits in itertools.product([False, True], repeat=4)]
    names = list(LINES.keys())
    streams = [([n], True) for n in names] + [(["fullw", "dash"], False), (["onea", "oneslash", "one"], True), (["plain", "empty", "multi"], True), (["nul", "plain"], True), (["plain", "nul"], False),
                                              (["empty", "half", "spaces"], True), (["slash", "cr", "one"], False), (["long", "half"], True),
                                              (["trailsp", "plain", "trailfw"], True), (["blanks", "tabend"], False)]
    rnd = random.Random(ctx.seed)
    runs = []
    for fl in allflags:
        for mname in ("plain", "tags"):
            # must-run: rejected first / middle / last line under every flag set
            for st in [(["empty", "plain", "multi"], True), (["plain", "nul", "half"], True), (["multi", "plain", "empty"], True)]:
                runs.append((mname, fl, [], st))
            for ws in (["D", "R"], ["H", "R"], ["R", "D", "H"], ["O", "D"]):
                runs.append((mname, fl, ws, (["half", "plain", "long"], True)))
        # a model that splits everywhere, filters whose character types differ between the original and the normalised spelling
        # (dash-like characters become the Katakana prolonged sound mark)
        for ws in (["T"], ["O"], ["T", "O"], ["K", "H"]):
            runs.append(("eval", fl, ws, (["dash", "fullw", "half"], True)))
        # filters that JOIN tokens the model split: the glued token is a different token (here: one without a tag model), so tags
        # and tag-score blocks must describe the tokens that exist AFTER the filters
        for ws in (["H"], ["R", "H"]):
            runs.append(("eval", fl, ws, (["plain", "long", "multi"], True)))
            extra = streams if not q else [st for k, st in enumerate(streams) if (k + len(runs)) % 2 == 0]
            for st in extra:
                ws = rnd.sample(["D", "R", "H", "T", "K", "O", "G"], rnd.randint(0, 2))
                runs.append((mname, fl, ws, st))
    events = []
    send = []
    for i, (mname, fl, ws, (lnames, fin)) in enumerate(runs):
        data = stdin_of(lnames, fin)
        lines_for_lib = data.split("\n")
        if fin:
            lines_for_lib = lines_for_lib[:-1]
        elif lines_for_lib and lines_for_lib[-1] == "":
            lines_for_lib = lines_for_lib[:-1]
        lines_for_lib = [ln[:-1] if ln.endswith("\r") else ln for ln in lines_for_lib]
        send.append({"id": i, "kind": "pipeline", "mode": "predict", "model": models[mname][0], "no_norm": fl["no_norm"],
                     "predict_tags": fl["predict_tags"], "wsconst": ws, "lines": [[ord(c) for c in ln] for ln in lines_for_lib]})
    lib = vlib.run_replay(binp, send, "C20-pipeline")
    for i, (mname, fl, ws, (lnames, fin)) in enumerate(runs):
        data = stdin_of(lnames, fin)
        rc, out, err = run_predict(cli, models[mname][1], fl, ws, data)
        try:
            outs = out.decode("utf-8")
            utf8 = True
        except UnicodeDecodeError:
            outs, utf8 = "", False
        o = lib[i]
        lps = []
        sane = "lines" in o
        for lp in o.get("lines", []):
            if not lp.get("accepted"):
                lps.append({"accepted": False, "norm": [], "bnd": [], "ntags": 0, "tags": [], "scores": [], "tokens": []})
            else:
                toks = [{"s": t["s"], "e": t["e"], "cands": t.get("cands", []) if isinstance(t.get("cands", []), list) else []} for t in lp["tokens"]]
                lps.append({"accepted": True, "norm": lp["norm"], "bnd": lp["bnd"], "ntags": lp["ntags"], "tags": lp["tags"] or [],
                            "scores": lp["scores"], "tokens": toks})
        events.append({"id": i, "ev": "predict", "flags": {k: fl[k] for k in ("scores", "tag_scores", "predict_tags")}, "status": rc,
                       "usage_error": rc == 2 and "sage" in err, "utf8": utf8 and sane, "stdin": [ord(c) for c in data],
                       "stdout": [ord(c) for c in outs], "lines": lps})
        ctx.evaluations += 1
        if any(fl.values()) and len(lnames) > 1:
            ctx.nontriv(i)
    rej, _ = vlib.validate_trace(ctx, "C20-predict", "Trace_Cli", events, chunk=2000)
    for rid in rej:
        mname, fl, ws, (lnames, fin) = runs[rid]
        e = events[rid]
        on = [k for k in fl if fl[k]]
        outtxt = "".join(map(chr, e["stdout"]))
        first_rej = next((k for k, n in enumerate(lnames) if n in ("empty", "nul")), None)
        ctx.violation(f"C20:predict:model={mname}:flags={'+'.join(on) or 'none'}:ws={''.join(ws)}:lines={'+'.join(lnames)}:nl={fin}",
                      f"predict exit {e['status']}; stdout {outtxt[:300]!r} is not one token line (+ blocks) per input line agreeing with the library pipeline",
                      {"kind": "cli20", "model": mname, "flags": fl, "wsconst": ws, "stdin": stdin_of(lnames, fin)},
                      cls=f"C20:predict:{'crash' if e['status'] != 0 else 'layout'}:{'+'.join(on) or 'none'}:{'rej' if first_rej is not None else 'acc'}:{mname}")
    ctx.add_part(predict_processes=len(runs), rejected=len(rej))
    ctx.sample({"flags": runs[-1][1], "stdin": stdin_of(*runs[-1][3]), "stdout": "".join(map(chr, events[-1]["stdout"]))[:200]})
    return models


def evaluate_tool(ctx, binp, cli, wd, models):
    q = ctx.quick
    refs_plain = ["aあ あa", "a ああ a", "あ", "a1 -b", "ああa aあa1 あ", "a あ\u3000", "あ a\t", "ab\\ ", "\u00a0 a\u0085"]
    refs_tags = ["a/D あ/F/G", "あ/F/H a/E", "ａ/A/C あ/F/I"]
    runs = []
    for no_norm in (False, True):
        for metric in ("char", "word"):
            for ws in ([], ["H"], ["R", "G"]):
                runs.append(("plain", refs_plain, no_norm, False, metric, ws))
    for no_norm in (False, True):
        for metric in ("char", "word"):
            runs.append(("tags", refs_tags, no_norm, True, metric, []))
    # tagged references evaluated WITHOUT tag prediction (and with a model without tags): the system has no tags
    for no_norm in (False, True):
        for metric in ("char", "word"):
            runs.append(("plain", refs_tags + ["あ/F あ/G/H", "ああ/X"], no_norm, False, metric, []))
            runs.append(("plain", refs_tags + ["あ/F あ/G/H", "ああ/X"], no_norm, True, metric, []))
            runs.append(("tags", ["あ/F あ/G", "あa/Z あ"], no_norm, False, metric, []))
    # tokens joined by a filter after prediction: tags must be those of the JOINED token (library order: filters, then fill_tags)
    refs_join = ["ああ a/D/Z", "あ/F/G aa", "あ/F/H あ/F/G a/E", "ああ/F/G ａ/D"]
    for no_norm in (False, True):
        for metric in ("char", "word"):
            for ws in (["H"], ["R"], ["H", "R"], []):
                runs.append(("eval", refs_join, no_norm, True, metric, ws))
    send = [{"id": i, "kind": "pipeline", "mode": "evaluate", "model": models[m][0], "no_norm": nn, "predict_tags": pt, "wsconst": ws,
             "lines": [[ord(c) for c in ln] for ln in refs]} for i, (m, refs, nn, pt, metric, ws) in enumerate(runs)]
    lib = vlib.run_replay(binp, send, "C20-evalpipe")
    cp = os.path.join(wd, "evalcases.ndjson")
    with open(cp, "w") as f:
        for i, r in enumerate(runs):
            pairs = []
            for lp in lib[i]["lines"]:
                if lp.get("accepted"):
                    pairs.append({"ref": lp["ref"], "sys": {"bnd": lp["bnd"], "ntags": lp["ntags"], "tags": lp["tags"]}})
            f.write(json.dumps({"id": i, "pairs": pairs}) + "\n")
    res = vlib.tlc("C20-gen-evalcounts", "Gen_EvalCounts", vlib.cfg_text(constants={"Chains": min(8, len(runs))}, invariants=["Emit"]),
                   env_extra={"CASES": cp}, jvm=["-Xss1g", "-XX:+UseParallelGC"])
    exp = {c["id"]: c for c in vlib.nonempty(vlib.cases_from(res["out"]), "Gen_EvalCounts")}
    ctx.add_tlc(res, f"Gen_EvalCounts: expected counts (boundary-wise and Nagata word matching) for {len(runs)} evaluation runs")
    for i, (m, refs, nn, pt, metric, ws) in enumerate(runs):
        args = ["--model", models[m][1], "--metric", metric]
        if nn:
            args.append("--no-norm")
        if pt:
            args.append("--predict-tags")
        for w in ws:
            args += ["--wsconst", w]
        p = subprocess.run([os.path.join(cli, "evaluate")] + args, input=("\n".join(refs) + "\n").encode(), stdout=subprocess.PIPE,
                           stderr=subprocess.PIPE, timeout=60, env=vlib.cargo_env())
        out = p.stdout.decode(errors="replace")
        ctx.evaluations += 1
        ctx.nontriv(("eval", i))
        vals = {}
        for ln in out.splitlines():
            if ":" in ln and "," not in ln:
                k, v = ln.split(":", 1)
                try:
                    vals[k.strip()] = float(v)
                except ValueError:
                    pass
            elif ln.startswith("TP:"):
                for part in ln.split(","):
                    k, v = part.split(":")
                    vals[k.strip()] = int(v)
        e = exp[i]
        if metric == "char":
            c = e["char"]
            want = {"TP": c["tp"], "TN": c["tn"], "FP": c["fp"], "FN": c["fn"]}
            num, dp, dr = c["tp"], c["tp"] + c["fp"], c["tp"] + c["fn"]
        else:
            c = e["word"]
            want = {}
            num, dp, dr = c["cor"], c["sys"], c["ref"]

        def div(a, b):
            return a / b if b else float("nan")
        pr, rc_ = div(num, dp), div(num, dr)
        f1 = div(2 * pr * rc_, pr + rc_) if pr == pr and rc_ == rc_ else float("nan")
        want.update({"Precision": pr, "Recall": rc_, "F1": f1})

        def same(a, b):
            if a is None:
                return False
            if isinstance(b, float) and b != b:
                return a != a
            return abs(a - b) < 1e-12
        bad = [k for k, v in want.items() if not same(vals.get(k), v)]
        if p.returncode != 0 or bad:
            ctx.violation(f"C20:evaluate:model={m}:metric={metric}:no_norm={nn}:tags={pt}:ws={''.join(ws)}",
                          f"evaluate exit {p.returncode}; printed {vals}; expected from the specification's counts {want}",
                          {"kind": "cli20-eval", "args": args, "stdin": refs}, cls=f"C20:evaluate:{metric}")
    ctx.add_part(evaluate_processes=len(runs))


def run(ctx):
    binp = vlib.build_harness()
    cli = vlib.build_cli()
    wd = os.path.join(vlib.WORK, "cli20")
    os.makedirs(wd, exist_ok=True)
    ctx.rule = ("predict: real processes over all 16 flag sets of {--no-norm, --predict-tags, --scores, --tag-scores} x two models (with and "
                "without tag models) x --wsconst subsets x input streams from a line pool (plain, multi-byte, half-width, spaces, slashes and "
                "backslashes, empty, NUL, CR-terminated, unterminated last line) incl. rejected first/middle/last lines; Trace_Cli parses "
                "stdout with the specification's tokenized reader and checks one token line per input line (surfaces = original line, "
                "labels/tags = library pipeline) and the block layout; evaluate: counts and P/R/F vs the specification's counts of the "
                "library pipeline's predictions; non-trivial = run with at least one flag and more than one line")
    models = predict_tool(ctx, binp, cli, wd)
    evaluate_tool(ctx, binp, cli, wd, models)
    train_tool(ctx, binp, cli, wd)


def replay(ctx, path):
    raise vlib.ToolError("replay: re-run bin/check C20")


def train_tool(ctx, binp, cli, wd):
    """train (the CLI) must produce byte for byte the model the library produces from the corpus as the specification says it is
    loaded (Gen_TrainCorpus: parse, normalise the text only, keep labels and tags; dictionary = sorted token surfaces)."""
    tok1 = ["aあ 1a a", "あ aa1", "1 aあa 1", "a/A あ/B 1", "a/Z あ/B"]
    # (lines whose first / last token is a white-space character other than U+0020: ordinary tokens of the tokenized format)
    tok2 = ["ab-c d.e", "A1 b2/N/M c", "ｱa 漢字/K a-b", "\u3000 a あ1 \u3000", "\ta \u00a0"]
    part1 = ["a|あ-a 1|a", "あ a-1|a/Q"]
    dict1 = ["a/A", "aあ", "b-/X 1"]
    cases = []
    for no_norm in (False, True):
        for (tk, pt, dc, args) in [(tok1, [], [], ["--charw", "2", "--charn", "2", "--typew", "2", "--typen", "2"]),
                                   (tok1 + tok2, part1, dict1, ["--charw", "2", "--charn", "3", "--typew", "1", "--typen", "2", "--dictn", "2"]),
                                   (tok2, part1, dict1, ["--charw", "3", "--charn", "1", "--typew", "2", "--typen", "2"]),
                                   ([], part1 + ["a|b"], dict1[:1], ["--charw", "1", "--charn", "1", "--typew", "1", "--typen", "1", "--dictn", "1"])]:
            cases.append({"id": len(cases), "no_norm": no_norm, "tok": [[ord(c) for c in x] for x in tk], "part": [[ord(c) for c in x] for x in pt],
                          "dict": [[ord(c) for c in x] for x in dc], "args": args, "raw": (tk, pt, dc)})
    cp = os.path.join(wd, "traincases.ndjson")
    with open(cp, "w") as f:
        for c in cases:
            f.write(json.dumps({k: c[k] for k in ("id", "no_norm", "tok", "part", "dict")}) + "\n")
    res = vlib.tlc("C20-gen-traincorpus", "Gen_TrainCorpus", vlib.cfg_text(constants={"Chains": len(cases)}, invariants=["Emit"]),
                   env_extra={"CASES": cp}, jvm=["-Xss1g", "-XX:+UseParallelGC"])
    loaded = {c["id"]: c for c in vlib.nonempty(vlib.cases_from(res["out"]), "Gen_TrainCorpus")}
    ctx.add_tlc(res, f"Gen_TrainCorpus: {len(cases)} corpora as the train tool must load them (parsed by the specification's readers, text normalised)")
    send = []
    for c in cases:
        ld = loaded[c["id"]]
        if not ld["ok"]:
            raise vlib.ToolError("Gen_TrainCorpus: corpus line rejected by the specification's reader")
        a = dict(zip(c["args"][::2], c["args"][1::2]))
        cfg = {"cw": int(a.get("--charw", 3)), "cn": int(a.get("--charn", 3)), "tw": int(a.get("--typew", 3)), "tn": int(a.get("--typen", 3)),
               "dict": ld["words"], "dn": int(a.get("--dictn", 4)), "solver": 1, "eps": 0.01, "cost": 1.0}

        def sent(s):
            return {"fmt": "build", "sent": {"text": s["text"], "bnd": s["bnd"], "ntags": s["ntags"], "tags": s["tags"]}}
        send.append({"id": c["id"], "kind": "train", "cfg": cfg, "corpus": [sent(s) for s in ld["sents"]],
                     "tagdict": [sent(s) for s in ld["tagdict"]], "eval": [], "want_bytes": True})
    # liblinear keeps a process-wide random generator: each library training runs in a fresh process, as the tool does
    lib = vlib.run_replay(binp, send, "C20-trainlib", fresh_process=True)
    events = []
    for c in cases:
        d = os.path.join(wd, f"train{c['id']}")
        os.makedirs(d, exist_ok=True)
        tk, pt, dc = c["raw"]
        args = ["--model", os.path.join(d, "m.zst"), "--solver", "1"] + c["args"]
        for name, lines, flag in (("c.tok", tk, "--tok"), ("c.part", pt, "--part"), ("d.txt", dc, "--dict")):
            if lines:
                open(os.path.join(d, name), "w").write("\n".join(lines) + "\n")
                args += [flag, os.path.join(d, name)]
        if c["no_norm"]:
            args.append("--no-norm")
        for pth in ("m.zst", "m.raw"):
            if os.path.exists(os.path.join(d, pth)):
                os.remove(os.path.join(d, pth))
        p = subprocess.run([os.path.join(cli, "train")] + args, stdout=subprocess.PIPE, stderr=subprocess.PIPE, timeout=120, env=vlib.cargo_env())
        tool_bytes = [-1]
        if p.returncode == 0 and os.path.exists(os.path.join(d, "m.zst")):
            vlib.run_harness(binp, ["unzstd", os.path.join(d, "m.zst"), os.path.join(d, "m.raw")], name="unzstd")
            tool_bytes = list(open(os.path.join(d, "m.raw"), "rb").read())
        o = lib[c["id"]]
        lib_bytes = o.get("model_bytes") or [-2]
        events.append({"id": c["id"], "ev": "pair", "ok": p.returncode == 0 and o.get("train") == "ok", "a": lib_bytes, "b": tool_bytes})
        ctx.evaluations += 1
        ctx.nontriv(("train", c["id"]))
    rej, _ = vlib.validate_trace(ctx, "C20-train", "Trace_Pair", events)
    for rid in rej:
        c = cases[rid]
        ctx.violation(f"C20:train:case{rid}:no_norm={c['no_norm']}", "the model written by the train tool differs from the model the library trains on the "
                      f"corpus loaded as specified (args {c['args']}, tok {c['raw'][0][:2]}..., dict {c['raw'][2]})", {"kind": "cli20-train", "case": rid},
                      cls="C20:train")
    ctx.add_part(train_processes=len(cases), rejected=len(rej))
