"""C10 - training uses exactly the annotated boundaries with the documented features."""
import json
import vlib

LEVEL = "model_checking"


def canon_examples(exs):
    out = []
    for e in exs:
        feats = sorted(json.dumps(f, sort_keys=True) for f in e["feats"])
        out.append(json.dumps({"label": e["label"], "feats": feats}, sort_keys=True))
    return sorted(out)


def run(ctx):
    binp = vlib.build_harness()
    q = ctx.quick
    ctx.rule = ("for every configuration of the family (char/type windows 0..2, n-gram sizes 0..3 incl. n > window, dictionary "
                "subsets of {a, aa, aあ, あaa}, buckets 1..2) every sentence over {a, あ, 1} up to the length bound with every label "
                "vector in {N,W,U} is added to a real Trainer and the stored examples (read through the verif-hooks accessor) are "
                "compared as multisets with VpTrainer!Examples; plus windows 128..255 on periodic sentences of 131..520 characters; non-trivial = sentence with at least one unknown boundary")
    consts = {"CWs": {0, 1, 2}, "CNs": {0, 1, 2, 3}, "TWs": {0, 1, 2}, "TNs": {0, 1, 2, 3},
              "DictSel": {0, 3, 5, 14} if q else set(range(16)), "DNs": {1, 2}, "Alphabet": {97, 12354, 49},
              "MaxN": 3, "Couple": True if q else False}
    if not q:
        consts["CNs"] = {0, 1, 3}
        consts["TNs"] = {0, 2, 3}
    cfg = vlib.cfg_text(constants=consts, invariants=["Facts", "Emit"])
    res = vlib.tlc("C10-gen-train", "Gen_Train", cfg, timeout=3400)
    if res["violated"]:
        raise vlib.ToolError("Gen_Train: design-level fact violated: " + res["violated"])
    cases = vlib.nonempty(vlib.cases_from(res["out"]), "Gen_Train")
    ctx.add_tlc(res, f"Gen_Train: {len(cases)} configurations x {len(cases[0]['sents'])} sentences; expected examples by VpTrainer!Examples")
    # windows of 128..255 characters (relative positions beyond +-127) on sentences longer than the window
    lconsts = {"WinIdx": {1, 2, 4} if q else {1, 2, 3, 4, 5}, "Lens": {140, 270} if q else {131, 140, 270, 520}, "PatIdx": {2} if q else {1, 2, 3}}
    resl = vlib.tlc("C10-gen-trainlong", "Gen_TrainLong", vlib.cfg_text(constants=lconsts, invariants=["Facts", "Emit"]), timeout=3400)
    if resl["violated"]:
        raise vlib.ToolError("Gen_TrainLong: design-level fact violated")
    lcases = vlib.nonempty(vlib.cases_from(resl["out"]), "Gen_TrainLong")
    ctx.add_tlc(resl, f"Gen_TrainLong: {len(lcases)} (window pair, length, pattern) cases with windows 128..255")
    cases = cases + lcases
    send = []
    for i, c in enumerate(cases):
        send.append({"id": i, "kind": "train", "train": False, "cfg": dict(c["cfg"], solver=1),
                     "corpus": [{"fmt": "part", "s": s["s"]} for s in c["sents"]], "tagdict": [], "eval": []})
    obs = vlib.run_replay(binp, send, "C10-examples")
    bad = 0
    for c, d in zip(cases, send):
        o = obs[d["id"]]
        key = f"cw{c['cfg']['cw']}cn{c['cfg']['cn']}tw{c['cfg']['tw']}tn{c['cfg']['tn']}d{len(c['cfg']['dict'])}dn{c['cfg']['dn']}"
        if "abort" in o or o.get("trainer_new") != "ok" or o.get("corpus_error"):
            ctx.violation(f"C10:{key}:setup", f"trainer could not be set up: {str(o)[:200]}", {"kind": "train", "case": d}, cls="C10:setup")
            bad += 1
            continue
        for k, (s, ex) in enumerate(zip(c["sents"], o["examples"])):
            ctx.evaluations += 1
            if s["nann"] < max(0, len(s["s"]) // 2):
                ctx.nontriv((d["id"], k))
            if ex == "panic" or canon_examples(ex) != canon_examples(s["ex"]):
                bad += 1
                exp_labels = sorted(e["label"] for e in s["ex"])
                got_labels = sorted(e["label"] for e in ex) if ex != "panic" else "panic"
                cls = "labels" if exp_labels != got_labels else "features"
                ctx.violation(f"C10:{key}:sent={s['s']}:{cls}",
                              f"examples for sentence {''.join(map(chr, s['s']))!r}: expected labels {exp_labels} got {got_labels}; "
                              f"expected {json.dumps(s['ex'])[:300]} observed {json.dumps(ex)[:300]}",
                              {"kind": "train", "case": dict(d, corpus=[d["corpus"][k]]), "expect_examples": s["ex"]}, cls="C10:" + cls)
    ctx.add_part(replayed="example extraction", configurations=len(cases), failing=bad)
    c = cases[len(cases) // 2]
    ctx.sample({"cfg": c["cfg"], "sentence": c["sents"][-1]["s"], "expected_examples": c["sents"][-1]["ex"]})
    ctx.exhaustive = True


def replay(ctx, path):
    raise vlib.ToolError("replay: re-run bin/check C10")
