"""C11 - training is total and its output is always usable."""
import random
import json
import vlib
from props import _train as T

LEVEL = "exploration"


def stages_of(o):
    st = [{"st": "new", "res": o.get("trainer_new", "panic")}]
    if o.get("trainer_new") != "ok":
        return st
    if any(x == "panic" for x in o.get("examples", [])):
        st.append({"st": "train", "res": "panic"})
        return st
    st.append({"st": "train", "res": o.get("train", "panic")})
    if o.get("train") != "ok":
        return st
    for k in ("write", "read", "pred_notags", "pred_tags"):
        st.append({"st": k, "res": o.get(k, "missing")})
    st.append({"st": "weights_i16", "res": "ok" if o.get("weights_i16") else "err"})
    for x in o.get("eval", []):
        for k in ("notags", "tags"):
            v = x.get(k)
            st.append({"st": "eval_" + k, "res": "ok" if isinstance(v, dict) and v.get("tokens", []) != "panic" else ("panic" if v == "panic" else "err")})
    return st


def run(ctx):
    binp = vlib.build_harness()
    q = ctx.quick
    classes = list(T.CLASSES.keys())
    ctx.rule = ("training pipelines over (char window, char n, type window, type n) in 0..3 x 8 solvers x corpus classes "
                f"{classes} x {{no dictionary, dictionary, dictionary with the empty word, dictionary with a repeated word}}: Trainer::new, add_example, train, to_vec, read, Predictor::new with "
                "and without tag prediction, predict and fill_tags on evaluation texts; every run is one event validated by "
                "Trace_Train!PipelineOk (a model or an error, never a panic; every later stage ok; weights within i16); quick = "
                "must-run list + seeded sample of TLC's enumeration; non-trivial = run in which training returned a model")
    consts = {"Sizes": {0, 1, 2, 3}, "Solvers": set(range(8)), "NClasses": len(classes), "DictKinds": {0, 1, 2, 3}}
    res = vlib.tlc("C11-gen-pipeline", "Gen_Pipeline", vlib.cfg_text(constants=consts, invariants=["Emit"]))
    sweep = vlib.cases_from(res["out"])
    ctx.add_tlc(res, f"Gen_Pipeline: {len(sweep)} configurations enumerated")
    if q:
        rnd = random.Random(ctx.seed)
        must = [c for c in sweep if (c["cw"], c["cn"], c["tw"], c["tn"]) in ((3, 3, 3, 3), (1, 1, 2, 2), (2, 2, 1, 1), (1, 3, 1, 3), (0, 0, 0, 0), (0, 2, 2, 0))
                and c["solver"] == 1 and c["dk"] == 1]
        # dictionaries with the empty word / a repeated word (an error from Trainer::new is fine; a panic later is not)
        must += [c for c in sweep if (c["cw"], c["cn"], c["tw"], c["tn"]) in ((2, 2, 2, 2), (0, 0, 0, 0)) and c["solver"] in (1, 5) and c["dk"] in (2, 3)
                 and c["cls"] in (4, 6)]
        sol = [c for c in sweep if (c["cw"], c["cn"], c["tw"], c["tn"]) == (2, 2, 2, 2) and c["dk"] == 0 and c["cls"] in (4, 5, 6)]
        rest = rnd.sample(sweep, 160)
        sel = {json.dumps(c, sort_keys=True): c for c in must + sol + rest}
        sweep = list(sel.values())
    elif len(sweep) > 12000:
        rnd = random.Random(ctx.seed)
        sweep = rnd.sample(sweep, 12000)
    # wide windows (beyond the 8-slot fixed layout) with a corpus whose sentence-final character is only ever seen to the right of
    # boundaries; evaluation texts that start with that character
    wide = []
    for cw, cn, tw, tn in ((8, 1, 8, 1), (9, 2, 3, 1), (12, 1, 1, 1), (3, 1, 9, 2)):
        for solver in ((1, 5) if q else range(8)):
            for cname in ("final-period", "untagged", "tagged-ambiguous"):
                wide.append({"cw": cw, "cn": cn, "tw": tw, "tn": tn, "solver": solver, "cls": classes.index(cname) + 1, "dk": 1})
    sweep = sweep + wide
    evals = [T.cps(x) for x in ["a", "aあ1", "あaあa1a", "1a漢b", "。a", "。", "a。あ1aあ。"]]
    send = []
    for i, c in enumerate(sweep):
        corpus, tagdict = T.CLASSES[classes[c["cls"] - 1]]
        d = {0: [], 1: [T.cps("a"), T.cps("aあ"), T.cps("1aあa")], 2: [T.cps("a"), [], T.cps("aあ")],
             3: [T.cps("a"), T.cps("aあ"), T.cps("a")]}[c["dk"]]
        send.append({"id": i, "kind": "train", "cfg": {"cw": c["cw"], "cn": c["cn"], "tw": c["tw"], "tn": c["tn"], "dict": d, "dn": 2,
                                                      "solver": c["solver"], "eps": 0.1, "cost": 1.0},
                     "corpus": corpus, "tagdict": tagdict, "eval": evals,
                     "key": f"cw{c['cw']}cn{c['cn']}tw{c['tw']}tn{c['tn']}:s{c['solver']}:{classes[c['cls'] - 1]}:dict{c['dk']}"})
    obs = vlib.run_replay(binp, [{k: v for k, v in d.items() if k != "key"} for d in send], "C11-pipelines")
    events = []
    for d in send:
        o = obs[d["id"]]
        if "abort" in o:
            st = [{"st": "new", "res": "ok"}, {"st": "train", "res": "abort"}]
        else:
            st = stages_of(o)
        events.append({"id": d["id"], "ev": "pipeline", "stages": st})
        ctx.evaluations += 1
        if any(s["st"] == "write" for s in st):
            ctx.nontriv(d["key"])
    rej, _ = vlib.validate_trace(ctx, "C11-pipeline", "Trace_Train", events, chunk=5000)
    byid = {d["id"]: d for d in send}
    evid = {e["id"]: e for e in events}
    for rid in rej:
        d = byid[rid]
        st = evid[rid]["stages"]
        badst = next((s for s in st if s["res"] not in ("ok",)), st[-1])
        ctx.violation(f"C11:{d['key']}:{badst['st']}:{badst['res']}", f"pipeline stages {[(s['st'], s['res']) for s in st][:9]}",
                      {"kind": "train", "case": {k: v for k, v in d.items() if k != "key"}},
                      cls=f"C11:{badst['st']}:{badst['res']}:{d['key'].split(':')[2]}")
    ctx.sample({"run": send[0]["key"], "stages": events[0]["stages"][:8]})
    ctx.add_part(pipelines=len(send), rejected=len(rej))


def replay(ctx, path):
    raise vlib.ToolError("replay: re-run bin/check C11")
