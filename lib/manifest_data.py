TECH = "explicit TLA+ specification checked with TLC; bound to the code by replaying TLC-generated cases (S->I) and by TLC validation of traces recorded from the real code (I->S)"
HOOKS = {
    "guard": "cargo feature verif-hooks (crate vaporetto)",
    "enable": "the harness depends on /repo/vaporetto with features [train, kytea, verif-hooks]",
    "baseline_off_cmd": "cd /repo && cargo test --workspace --no-fail-fast --offline",
    "source_commits": ["7bcbc2a verif-hooks: cargo feature with observation points for the trainer (guard off by default)"],
    "add_only": True,
}
ENGINES = [
    {"name": "tlc+vph", "path": "/verif/bin/check", "serves_properties": [],
     "kind_free_text": "python3 orchestrator (lib/vlib.py) driving TLC 1.8 on /verif/spec/*.tla and the Rust harness /verif/harness/vph built against /repo's working tree"},
]
NOTES = ("Every verdict is produced by TLC evaluating /verif/spec: either TLC computed the expectation the real code failed to meet, "
         "or TLC rejected a behaviour recorded from the real code. Exit codes: 0 held, 1 VIOLATION, 2 tool error.")
TB = "TLC, the CommunityModules Json/IOUtils modules, serde_json, the harness projection (accessors of the public API only)"
CHECKS = {
    "C01": dict(level="model_checking", ref="DESIGN.md §5 C01",
                text="RefScore (TLA+) is the oracle: exhaustive model families x texts enumerated by TLC and replayed through the real Predictor, plus seeded random models/texts whose recorded scores TLC recomputes",
                note=TB + "; bounded scopes (windows up to 12, texts up to 24 characters in random traces)", technique=TECH),
    "C02": dict(level="model_checking", ref="DESIGN.md §5 C02",
                text="TLC proves the iterator state machine equal to the set-theoretic token definition for every label vector up to the bound and the real iterator/writer is replayed on every one of them",
                note=TB + "; vectors up to n=9 (quick) / n=12 (thorough)", technique=TECH),
    "C03": dict(level="model_checking", ref="DESIGN.md §5 C03",
                text="TLC enumerates sentences and strings; the real writer/reader round trip and idempotence are judged by the trace specification Trace_Writers",
                note=TB + "; sentences up to 3-4 characters with tag rows from a pool containing the delimiters", technique=TECH),
    "C04": dict(level="model_checking", ref="DESIGN.md §5 C04",
                text="as C03 for the partial-annotation format, labels {N,W,U}, tags on every character",
                note=TB, technique=TECH),
    "C05": dict(level="model_checking", ref="DESIGN.md §5 C05",
                text="the reader state machines of VpFormats give the allowed outcome set for every string up to the bound; constructors and updates (on a dirty object) are replayed and compared field by field",
                note=TB + "; strings up to length 4 (quick) / 5 (thorough) over 8 symbols", technique=TECH),
    "C06": dict(level="model_checking", ref="DESIGN.md §5 C06",
                text="RefTagRows/RefTokenCands (TLA+) are the oracle: enumerated tag-model families and random models with predicted or hand-set boundaries",
                note=TB, technique=TECH),
    "C07": dict(level="fault_enumeration", ref="DESIGN.md §5 C07",
                text="VpFiles gives the outcome for every (operation, length, truncation, fault, header, trailing bytes); TLC proves the step-wise reader refines it (MC_Files) and validates every event of an exhaustive fault enumeration on real serialisations (Trace_Files)",
                note=TB + "; files: shipped model, generated models with tag models, a model with multi-byte varint lengths", technique=TECH),
    "C08": dict(level="model_checking", ref="DESIGN.md §5 C08",
                text="MC_Lifecycle: TLC proves reused = fresh on the life-cycle model for all histories up to the depth and the real object is replayed on every history; random long histories validated by Trace_Lifecycle; MC_Concurrent explores all interleavings of the predict steps; real threads validated by Trace_Concurrent",
                note=TB + "; real-thread schedules are sampled, not enumerated", technique=TECH),
    "C13": dict(level="exploration", ref="DESIGN.md §5 C13",
                text="the TLC-generated histories of C01/C06 replayed under every feature subset; Trace_Pair requires every build to agree with the default build",
                note=TB + "; quick: 11 builds, thorough: 31 + portable-simd on nightly", technique=TECH),
    "C14": dict(level="model_checking", ref="DESIGN.md §5 C14",
                text="enumerated and random models through serialize_to_vec/deserialize_from_slice_unchecked with trailing bytes; Trace_Pair requires identical observations and rest = trailing",
                note=TB, technique=TECH),
    "C15": dict(level="model_checking", ref="DESIGN.md §5 C15",
                text="VpFilters (incl. UAX#29 rules transcribed over character classes) is the oracle for every sentence up to the bound x every label vector x every filter, each applied twice",
                note=TB + "; GB9c (Indic conjuncts) outside the generated alphabets", technique=TECH),
    "C09": dict(level="model_checking", ref="DESIGN.md §5 C09",
                text="real liblinear runs; the learner's quantised output is read through the verif-hooks and Trace_Train recomputes every boundary score of every evaluation text from VpTrainer!FeatureBag; stored vector layouts checked against each kind's own window",
                note=TB + "; the learner is an unconstrained function bound by the hooks; windows/n in 1..3", technique=TECH),
    "C10": dict(level="model_checking", ref="DESIGN.md §5 C10",
                text="VpTrainer!Examples is the oracle for every sentence up to the bound x every label vector x the configuration family; the real Trainer's stored examples are read back through the hook accessor and compared as multisets",
                note=TB + "; sentences up to 3 characters over {a, あ, 1}", technique=TECH),
    "C11": dict(level="exploration", ref="DESIGN.md §5 C11",
                text="sweep over sizes 0..3 x 8 solvers x 10 corpus classes x dictionary; each pipeline run is one event validated against the pipeline life-cycle of Trace_Train (model or error, never panic; every later stage ok; weights in i16)",
                note=TB + "; quick = must-run list + seeded sample; liblinear trusted", technique=TECH),
    "C12": dict(level="model_checking", ref="DESIGN.md §5 C12",
                text="Gen_Inventory (TLC, spec readers) gives the expected inventory of each corpus; real training; Trace_Train checks inventories as sets, vector sizes, prediction consequences and candidate scores = learned classifier on VpTrainer!TagFeatures",
                note=TB + "; corpora = subsets of a sentence pool", technique=TECH),
    "C16": dict(level="model_checking", ref="DESIGN.md §5 C16",
                text="normaliser observed on all 1,112,064 scalars, laws checked by Trace_C16; Tantivy token streams: enumerated cases with expected streams from VpTantivy, random streams must tile the text and break where the library pipeline breaks",
                note=TB + "; the normaliser table is observed, not pinned; NUL through Tantivy not judged", technique=TECH),
}
NOT_APPLICABLE = [
    {"property_id": p, "reason": "check under construction in this session (see DESIGN.md §13 build order); not claimed yet"}
    for p in ["C17", "C18", "C19", "C20"]
]
