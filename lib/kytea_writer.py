"""Independent writer for KyTea binary model files (constructor for C17 cases).

Format knowledge: the KyTea model layout (config header, linear models with feature-lookup tries, tag entries).
Input: the abstract KyTea model printed by Gen_Kytea (char_w, type_w, dict_n, bias, char_ngrams, type_ngrams,
n_dicts, dict_vec, words, ntags)."""
import struct


def u8(x): return struct.pack("<B", x)
def u32(x): return struct.pack("<I", x)
def i32(x): return struct.pack("<i", x)
def i16(x): return struct.pack("<h", x)
def f64(x): return struct.pack("<d", x)


class CharMap:
    def __init__(self, chars):
        self.chars = list(chars)
        self.idx = {c: i + 1 for i, c in enumerate(self.chars)}

    def code(self, c):
        return struct.pack("<H", self.idx[c])

    def string(self, cps):
        return u32(len(cps)) + b"".join(self.code(c) for c in cps)


def vec_i16(v):
    return u32(len(v)) + b"".join(i16(x) for x in v)


def trie(cm, n_dicts, items, write_entry):
    """items: list of (key code points, entry).  Returns the serialised Dictionary."""
    if not items:
        return u8(n_dicts) + u32(0)
    states = [{"gotos": {}, "out": [], "branch": False}]
    entries = []
    for key, ent in items:
        s = 0
        for c in key:
            if c not in states[s]["gotos"]:
                states.append({"gotos": {}, "out": [], "branch": False})
                states[s]["gotos"][c] = len(states) - 1
            s = states[s]["gotos"][c]
        states[s]["branch"] = True
        states[s]["out"] = [len(entries)]
        entries.append(ent)
    # failure links and inherited outputs, as KyTea's Aho-Corasick dictionaries store them: a state's output list holds its
    # own entry first (if it is a key) followed by the entries of the keys that are proper suffixes of its string
    fail = [0] * len(states)
    order = []
    queue = list(states[0]["gotos"].values())
    while queue:
        s_ = queue.pop(0)
        order.append(s_)
        for c, nxt in states[s_]["gotos"].items():
            f = fail[s_]
            while f and c not in states[f]["gotos"]:
                f = fail[f]
            cand = states[f]["gotos"].get(c, 0)
            fail[nxt] = cand if cand != nxt else 0
            queue.append(nxt)
    for s_ in order:
        states[s_]["out"] = states[s_]["out"] + [o for o in states[fail[s_]]["out"] if o not in states[s_]["out"]]
    out = u8(n_dicts) + u32(len(states))
    for si, st in enumerate(states):
        out += u32(fail[si])                            # failure link
        out += u32(len(st["gotos"]))
        # deliberately not sorted by character: the reader must not depend on the stored order
        for c, nxt in reversed(list(st["gotos"].items())):
            out += cm.code(c) + u32(nxt)
        out += u32(len(st["out"]))
        for o in st["out"]:
            out += u32(o)
        out += u8(1 if st["branch"] else 0)
    out += u32(len(entries))
    for e in entries:
        out += write_entry(e)
    return out


def linear_model_none():
    return u32(0)


def write(km):
    chars = set()
    for e in km["char_ngrams"]:
        chars.update(e["ng"])
    for e in km["type_ngrams"]:
        chars.update(e["ng"])
    for w in km["words"]:
        chars.update(w["w"])
    chars.update([ord(c) for c in "DRHTKO"])
    chars.discard(0)
    chars.update([0x540D, 0x8A5E])   # characters used by tag strings
    # optional padding: unused characters in the character map shift every later file offset by one byte each
    for k in range(km.get("pad", 0)):
        chars.add(0x21 + k)
    cm = CharMap(sorted(chars))
    ntags = km.get("ntags", 0)
    out = b"KyTea 0.4.7 B UTF-8\n"
    do_tags = km.get("do_tags", 1 if ntags else 0)      # the tag sections exist for every tag slot whatever this flag says
    out += u8(1) + u8(do_tags) + u32(ntags)
    out += u8(km["char_w"]) + u8(3) + u8(km["type_w"]) + u8(3) + u8(km["dict_n"]) + u8(1) + f64(0.01) + u8(1)
    out += "".join(chr(c) for c in cm.chars).encode("utf-8") + b"\0"
    # word segmentation model
    out += u32(2) + u8(1) + i32(1) + i32(-1) + u8(1) + f64(0.0005)
    out += u8(1)   # feature lookup active
    out += trie(cm, 0, [(e["ng"], e["v"]) for e in km["char_ngrams"]], vec_i16)
    out += trie(cm, 0, [(e["ng"], e["v"]) for e in km["type_ngrams"]], vec_i16)
    out += trie(cm, 0, [], vec_i16)                      # self dict
    out += vec_i16(km["dict_vec"])
    out += vec_i16([km["bias"]])
    out += vec_i16([])                                   # tag dict vec
    out += vec_i16([])                                   # tag unk vec
    # global tags and models
    tagstr = [0x540D, 0x8A5E]
    for t in range(ntags):
        out += u32(1 + t) + b"".join(cm.string(tagstr[: 1 + (k % 2)]) for k in range(1 + t))
        out += linear_model_none()
    # dictionary

    def entry(w):
        o = cm.string(w["w"])
        for t in range(ntags):
            o += u32(1) + cm.string(tagstr) + u8(1)
        o += u8(w["mask"])
        for t in range(ntags):
            o += linear_model_none()
        return o
    out += trie(cm, km["n_dicts"], [(w["w"], w) for w in km["words"]], entry)
    # subword dictionary: empty
    out += u8(0) + u32(0)
    return out
