"""Common machinery for the vaporetto verification checks (python3, stdlib only).

Everything that produces a verdict goes through TLC evaluating the TLA+ text in /verif/spec:
either TLC produced the expectation that the real code failed to meet (S->I, `replay`), or TLC
rejected a behaviour recorded from the real code (I->S, `validate`).  This module only moves data
between TLC and the Rust harness and compares JSON values for equality.
"""
import hashlib
import json
import os
import re
import shutil
import subprocess
import sys
import time

VERIF = os.path.dirname(os.path.dirname(os.path.abspath(__file__)))
SPEC = os.path.join(VERIF, "spec")
WORK = os.path.join(VERIF, "work")
HARNESS = os.path.join(VERIF, "harness")
REPLAYS = os.path.join(VERIF, "replays")
EVIDENCE = os.path.join(VERIF, "evidence")
KNOWN = os.path.join(VERIF, "KNOWN_FINDINGS.jsonl")
NCPU = os.cpu_count() or 4


class ToolError(Exception):
    pass


def log(*a):
    print(*a, file=sys.stderr, flush=True)


# ------------------------------------------------------------------------------------------------
# TLC

def tlc(name, module, cfg_text, workers=None, timeout=1800, env_extra=None, jvm=None, simulate=None,
        extra_args=None, keep_out=True):
    """Runs TLC on /verif/spec/<module>.tla with the given configuration text.
    Returns dict(out=<stdout text>, generated, distinct, depth, ok, violated=<invariant name|None>)."""
    wd = os.path.join(WORK, "tlc", name)
    shutil.rmtree(wd, ignore_errors=True)
    os.makedirs(wd, exist_ok=True)
    cfg = os.path.join(wd, module + ".cfg")
    with open(cfg, "w") as f:
        f.write(cfg_text)
    if workers is None:
        workers = min(NCPU, 12)
    jvm = jvm or ["-Xss512m", "-XX:+UseParallelGC"]
    jtmp = os.path.join(wd, "jtmp")      # keep the JVM's scratch files out of /tmp
    os.makedirs(jtmp, exist_ok=True)
    cmd = ["java"] + jvm + ["-Djava.io.tmpdir=" + jtmp,
                            "-cp", "/opt/veriftools/tla/tla2tools.jar:/opt/veriftools/tla/CommunityModules-deps.jar",
                            "tlc2.TLC", "-workers", str(workers), "-metadir", os.path.join(wd, "md"), "-cleanup",
                            "-noGenerateSpecTE", "-config", cfg]
    if simulate:
        cmd += ["-simulate", simulate]
    if extra_args:
        cmd += extra_args
    cmd.append(os.path.join(SPEC, module + ".tla"))
    env = dict(os.environ)
    env.pop("JAVA_TOOL_OPTIONS", None)
    if env_extra:
        env.update(env_extra)
    outp = os.path.join(wd, "out.txt")
    t0 = time.time()
    with open(outp, "w") as fo:
        try:
            p = subprocess.run(cmd, stdout=fo, stderr=subprocess.STDOUT, cwd=wd, env=env, timeout=timeout)
        except subprocess.TimeoutExpired:
            raise ToolError(f"TLC timeout ({timeout}s) on {name}")
    out = open(outp, errors="replace").read()
    res = {"out": out, "path": outp, "wall": time.time() - t0, "rc": p.returncode,
           "generated": 0, "distinct": 0, "depth": 0, "violated": None}
    m = re.search(r"(\d+) states generated, (\d+) distinct states found", out)
    if m:
        res["generated"] = int(m.group(1))
        res["distinct"] = int(m.group(2))
    m = re.search(r"depth of the complete state graph search is (\d+)", out)
    if m:
        res["depth"] = int(m.group(1))
    m = re.search(r"Invariant (\S+) is violated", out)
    if m:
        res["violated"] = m.group(1)
    res["ok"] = ("Model checking completed. No error has been found." in out) or \
                (simulate is not None and "Error:" not in out)
    if not res["ok"] and res["violated"] is None:
        # parse/semantic/evaluation error: a tool problem, never a verdict
        if "Error:" in out or p.returncode != 0:
            tail = "\n".join(out.splitlines()[-25:])
            raise ToolError(f"TLC failed on {name} (rc={p.returncode}):\n{tail}")
    return res


_CASE_RE = re.compile(r'^<<"(CASE|REJECT|NOTE)", "(.*)">>$')


def tagged_lines(out, tag="CASE"):
    """Extracts the JSON payloads printed by PrintT(<<tag, ToJson(x)>>)."""
    res = []
    for line in out.splitlines():
        if not line.startswith('<<"' + tag + '"'):
            continue
        m = _CASE_RE.match(line)
        if not m:
            raise ToolError("unparsable TLC line: " + line[:200])
        payload = m.group(2).replace('\\"', '"').replace("\\\\", "\\")
        res.append(payload)
    return res


def cases_from(out, tag="CASE"):
    """Parsed payloads, in a deterministic order (TLC workers print in arbitrary order)."""
    payloads = sorted(set(tagged_lines(out, tag)))
    return [json.loads(p) for p in payloads]


def nonempty(cases, what):
    """A generator that yields no case would make a check vacuous: that is a tool error, never a pass."""
    if not cases:
        raise ToolError(f"generator produced no cases: {what}")
    return cases


def cfg_text(init="Init", next_="Next", constants=None, invariants=(), constraint=None, spec=None,
             postcondition=None, view=None, extra=""):
    lines = []
    if spec:
        lines.append(f"SPECIFICATION {spec}")
    else:
        lines += [f"INIT {init}", f"NEXT {next_}"]
    if constants:
        lines.append("CONSTANTS")
        for k, v in constants.items():
            lines.append(f" {k} = {tla_value(v)}")
    for inv in invariants:
        lines.append(f"INVARIANT {inv}")
    if constraint:
        lines.append(f"CONSTRAINT {constraint}")
    if postcondition:
        lines.append(f"POSTCONDITION {postcondition}")
    if view:
        lines.append(f"VIEW {view}")
    lines.append("CHECK_DEADLOCK FALSE")
    if extra:
        lines.append(extra)
    return "\n".join(lines) + "\n"


def tla_value(v):
    if isinstance(v, bool):
        return "TRUE" if v else "FALSE"
    if isinstance(v, int):
        return str(v)
    if isinstance(v, str):
        return v  # raw TLA+ text (e.g. a model value or an expression allowed in cfg)
    if isinstance(v, (set, frozenset)):
        return "{" + ", ".join(tla_value(x) for x in sorted(v, key=lambda x: (str(type(x)), x))) + "}"
    if isinstance(v, (list, tuple)):
        return "<<" + ", ".join(tla_value(x) for x in v) + ">>"
    raise ValueError(v)


# ------------------------------------------------------------------------------------------------
# Harness

_built = {}


def cargo_env():
    env = dict(os.environ)
    env["CARGO_NET_OFFLINE"] = "true"
    env["RUST_BACKTRACE"] = "0"
    return env


def build_harness(profile="dev", package="vph", features=None, target_sub=None, toolchain=None,
                  rustflags=None, no_default=False, target_triple=None):
    """Builds the harness against /repo's current working tree; returns the binary path."""
    key = (profile, package, tuple(features or ()), target_sub, toolchain, rustflags, no_default)
    if key in _built:
        return _built[key]
    cmd = ["cargo"]
    if toolchain:
        cmd.append("+" + toolchain)
    cmd += ["build", "--offline", "-p", package, "--quiet"]
    if profile == "release":
        cmd.append("--release")
    if no_default:
        cmd.append("--no-default-features")
    if features:
        cmd += ["--features", ",".join(features)]
    tdir = os.path.join(WORK, "target" if not target_sub else "target-" + target_sub)
    cmd += ["--target-dir", tdir]
    if target_triple:
        cmd += ["--target", target_triple]
    env = cargo_env()
    if rustflags:
        env["RUSTFLAGS"] = rustflags
    t0 = time.time()
    p = subprocess.run(cmd, cwd=HARNESS, env=env, stdout=subprocess.PIPE, stderr=subprocess.STDOUT, text=True)
    if p.returncode != 0:
        raise BuildError(f"cargo build failed ({' '.join(cmd)}):\n" + p.stdout[-4000:])
    sub = "release" if profile == "release" else "debug"
    if target_triple:
        binp = os.path.join(tdir, target_triple, sub, package)
    else:
        binp = os.path.join(tdir, sub, package)
    log(f"[build] {package} {profile} {features or ''} in {time.time() - t0:.1f}s")
    _built[key] = binp
    return binp


class BuildError(ToolError):
    pass


REPLAYED = [0]


def run_replay(binp, cases, name, jobs=None, per_case_timeout=60, fresh_process=False):
    """Runs harness `replay` over cases (list of dicts with unique 'id'), in parallel worker
    processes.  A worker that dies (abort, signal) is restarted after the case in flight, which is
    reported as {"id":..., "abort": <signal/rc>}.  Returns dict id -> observation."""
    wd = os.path.join(WORK, "replay", name)
    shutil.rmtree(wd, ignore_errors=True)
    os.makedirs(wd, exist_ok=True)
    REPLAYED[0] += len(cases)
    jobs = jobs or NCPU
    jobs = max(1, min(jobs, (len(cases) + 49) // 50))
    if fresh_process:
        # one process per case (state that survives inside a process, e.g. liblinear's random generator, must not leak)
        jobs = max(1, len(cases))
    chunks = [cases[i::jobs] for i in range(jobs)]
    procs = []
    for k, ch in enumerate(chunks):
        inp = os.path.join(wd, f"in{k}.ndjson")
        with open(inp, "w") as f:
            for c in ch:
                f.write(json.dumps(c, separators=(",", ":")) + "\n")
        outp = os.path.join(wd, f"out{k}.ndjson")
        procs.append({"k": k, "inp": inp, "out": outp, "start": 0, "n": len(ch), "cases": ch, "p": None,
                      "aborts": {}})
    env = cargo_env()

    def launch(pr):
        pr["p"] = subprocess.Popen([binp, "replay", pr["inp"], pr["out"], str(pr["start"])], env=env,
                                   stdout=subprocess.DEVNULL, stderr=subprocess.PIPE)
        pr["t0"] = time.time()

    for pr in procs:
        launch(pr)
    pending = list(procs)
    deadline = time.time() + max(600, per_case_timeout * 10 + len(cases) * 0.05)
    while pending:
        time.sleep(0.05)
        for pr in list(pending):
            rc = pr["p"].poll()
            if rc is None:
                if time.time() > deadline:
                    pr["p"].kill()
                    raise ToolError(f"harness replay timeout in {name}")
                continue
            err = pr["p"].stderr.read().decode(errors="replace")
            if rc == 0:
                pending.remove(pr)
                continue
            # abnormal termination: attribute to the case in flight
            try:
                prog = open(pr["out"] + ".progress").read().strip()
            except OSError:
                prog = ""
            if not prog.isdigit():
                raise ToolError(f"harness died (rc={rc}) without progress info in {name}: {err[-500:]}")
            idx = int(prog)
            if idx >= pr["n"]:
                raise ToolError(f"harness died (rc={rc}) after the last case in {name}: {err[-500:]}")
            pr["aborts"][idx] = rc
            pr["start"] = idx + 1
            if len(pr["aborts"]) > 2000:
                raise ToolError(f"too many aborts in {name}")
            launch(pr)
    results = {}
    for pr in procs:
        if os.path.exists(pr["out"]):
            with open(pr["out"]) as f:
                for line in f:
                    o = json.loads(line)
                    results[o["id"]] = o
        for idx, rc in pr["aborts"].items():
            cid = pr["cases"][idx]["id"]
            results[cid] = {"id": cid, "abort": rc}
    missing = [c["id"] for c in cases if c["id"] not in results]
    if missing:
        raise ToolError(f"harness produced no result for {len(missing)} cases in {name} (first {missing[:3]})")
    if not os.environ.get("VERIF_KEEP"):
        shutil.rmtree(wd, ignore_errors=True)       # case/observation files can be gigabytes in the thorough tier
    return results


def run_harness(binp, args, timeout=1800, name="harness"):
    """Runs a harness subcommand to completion; abnormal exit is a tool error."""
    p = subprocess.run([binp] + args, env=cargo_env(), stdout=subprocess.PIPE, stderr=subprocess.PIPE,
                       timeout=timeout)
    if p.returncode != 0:
        raise ToolError(f"{name} {' '.join(args[:3])} failed rc={p.returncode}: {p.stderr.decode(errors='replace')[-800:]}")
    return p.stdout.decode(errors="replace")


# ------------------------------------------------------------------------------------------------
# comparison (plain equality of JSON values)

def alt_matches(obs_step, alt):
    """obs_step = {"res":..., "proj": {...}}; alt = {"res":..., <field>: <expected>...}.
    Every field present in the alternative must equal the observed projection's field."""
    if obs_step.get("res") != alt.get("res"):
        return False
    proj = obs_step.get("proj")
    for k, v in alt.items():
        if k == "res":
            continue
        if not isinstance(proj, dict) or proj.get(k, "<missing>") != v:
            return False
    return True


def first_diff(obs_step, alt):
    if obs_step.get("res") != alt.get("res"):
        return ("res", alt.get("res"), obs_step.get("res"))
    proj = obs_step.get("proj")
    for k, v in alt.items():
        if k == "res":
            continue
        if not isinstance(proj, dict):
            return (k, v, proj)
        if proj.get(k, "<missing>") != v:
            return (k, v, proj.get(k, "<missing>"))
    return None


def step_ok(obs_step, allowed):
    return any(alt_matches(obs_step, a) for a in allowed)


# ------------------------------------------------------------------------------------------------
# known findings

def load_known():
    res = []
    if os.path.exists(KNOWN):
        for line in open(KNOWN):
            line = line.strip()
            if line and not line.startswith("#"):
                res.append(json.loads(line))
    return res


# ------------------------------------------------------------------------------------------------
# Check context: collects coverage numbers, violations, writes evidence and the verdict

class Ctx:
    def __init__(self, prop, tier, seed, level):
        self.prop = prop
        self.tier = tier
        self.seed = seed
        self.level = level
        self.t0 = time.time()
        self.states = 0
        self.transitions = 0
        self.evaluations = 0
        self.nontrivial = set()
        self.nontrivial_count = 0
        self.traces = 0
        self.samples = []
        self.parts = []
        self.violations = []   # (sig, what, replay_obj)
        self.rule = ""
        self.exhaustive = None
        self.assumptions = []
        self.extra = {}
        self.known = [k for k in load_known() if k.get("property") == prop]

    @property
    def quick(self):
        return self.tier == "quick"

    def add_tlc(self, res, what):
        self.states += res["distinct"]
        self.transitions += res["generated"]
        self.parts.append({"tlc": what, "distinct_states": res["distinct"], "states_generated": res["generated"],
                           "depth": res["depth"], "wall_s": round(res["wall"], 1)})

    def add_part(self, **kw):
        self.parts.append(kw)

    def sample(self, obj, limit=6):
        if len(self.samples) < limit:
            self.samples.append(obj)

    def nontriv(self, key):
        self.nontrivial.add(key)

    def violation(self, sig, what, replay_obj, cls=None):
        self.violations.append((sig, what, replay_obj, cls or sig))

    def finish(self):
        os.makedirs(EVIDENCE, exist_ok=True)
        os.makedirs(REPLAYS, exist_ok=True)
        new = []
        known_hit = []
        for sig, what, obj, cls in self.violations:
            hit = None
            for k in self.known:
                if k.get("status") == "open" and re.fullmatch(k["signature"], sig):
                    hit = k
                    break
            if hit:
                known_hit.append((hit, sig))
            else:
                new.append((sig, what, obj, cls))
        seen = set()
        for hit, sig in known_hit:
            key = hit["signature"]
            if key in seen:
                continue
            seen.add(key)
            print(f"KNOWN-FINDING: property={self.prop} {hit.get('what', '')} [{sig}]")
        reported = 0
        seen_sig = set()
        per_cls = {}
        for sig, what, obj, cls in new:
            if sig in seen_sig:
                continue
            seen_sig.add(sig)
            per_cls[cls] = per_cls.get(cls, 0) + 1
            if reported >= 30 or per_cls[cls] > 2:
                continue
            h = hashlib.sha1(sig.encode()).hexdigest()[:12]
            path = os.path.join(REPLAYS, f"{self.prop}-{h}.json")
            with open(path, "w") as f:
                json.dump({"property": self.prop, "signature": sig, "what": what, "replay": obj}, f, indent=1)
            print(f"VIOLATION property={self.prop} replay={path}")
            log(f"  {sig}: {what}")
            reported += 1
        nontriv = len(self.nontrivial) + self.nontrivial_count
        cov = {
            "evaluations": self.evaluations,
            "distinct_nontrivial": nontriv,
            "rule": self.rule,
            "samples": self.samples if self.samples else [{"note": "no sample recorded"}],
            "states": self.states,
            "transitions": self.transitions,
            # behaviours bound to the implementation: TLC-generated cases replayed through the real code (S->I) plus
            # recorded events of the real code validated by a trace specification (I->S)
            "traces_validated_against_impl": self.traces + REPLAYED[0],
            "recorded_events_validated_by_tlc": self.traces,
            "tlc_generated_cases_replayed": REPLAYED[0],
            "parts": self.parts,
        }
        if self.exhaustive is not None:
            cov["exhaustive"] = self.exhaustive
        cov.update(self.extra)
        ev = {
            "property_id": self.prop,
            "tier": self.tier,
            "seed": self.seed,
            "level": self.level,
            "coverage": cov,
            "assumptions": self.assumptions,
            "wall_s": round(time.time() - self.t0, 1),
            "violations": len(seen_sig),
            "known_findings_hit": sorted(seen),
        }
        with open(os.path.join(EVIDENCE, self.prop + ".json"), "w") as f:
            json.dump(ev, f, indent=1)
        log(f"[{self.prop}] tier={self.tier} evaluations={self.evaluations} nontrivial={nontriv} "
            f"states={self.states} traces={self.traces} violations={len(seen_sig)} wall={ev['wall_s']}s")
        return 1 if new else 0


# ------------------------------------------------------------------------------------------------
# S->I: histories with expected alternatives per step

def check_histories(ctx, binp, name, hcases, sigfn=None, jobs=None):
    """hcases: list of dicts {id, ops, [preds], [opts], expect:[ [alt,...] per step ], [key]}.
    `expect[k]` may be None (step not judged).  Returns number of failing cases."""
    send = []
    for c in hcases:
        d = {k: v for k, v in c.items() if k not in ("expect", "key", "meta")}
        d.setdefault("kind", "history")
        send.append(d)
    obs = run_replay(binp, send, name, jobs=jobs)
    bad = 0
    for c, d in zip(hcases, send):
        o = obs[c["id"]]
        fail = None
        if "abort" in o:
            fail = (0, "abort", f"process ended abnormally rc={o['abort']}")
        elif o.get("harness_panic"):
            fail = (0, "harness_panic", "panic outside guarded code")
        else:
            if "pred_expect" in c and o.get("preds") != c["pred_expect"]:
                fail = (0, "preds", f"predictor construction: expected {c['pred_expect']} observed {o.get('preds')}")
            steps = o.get("steps", [])
            if fail is None:
                for k, allowed in enumerate(c["expect"]):
                    if allowed is None:
                        continue
                    if k >= len(steps):
                        fail = (k, "missing", "no observation")
                        break
                    if not step_ok(steps[k], allowed):
                        d0 = first_diff(steps[k], allowed[0])
                        fail = (k, d0[0], f"step {k} ({c['ops'][k].get('op')}): field {d0[0]} expected "
                                          f"{json.dumps(d0[1])[:300]} observed {json.dumps(d0[2])[:300]}")
                        break
        if fail:
            bad += 1
            sig = sigfn(c, fail) if sigfn else f"{name}:{c.get('key', c['id'])}:{fail[1]}"
            ctx.violation(sig, fail[2], {"kind": "history", "harness_case": d, "expect": c["expect"],
                                         "pred_expect": c.get("pred_expect")},
                          cls=f"{name}:{c['ops'][fail[0]].get('op') if c.get('ops') else ''}:{fail[1]}")
    return bad


def replay_file(ctx, path, binp=None):
    """Re-runs one replay file (written by Ctx.finish) against the current tree."""
    rep = json.load(open(path))
    obj = rep["replay"]
    binp = binp or build_harness()
    if obj.get("kind") == "history":
        c = dict(obj["harness_case"])
        c["id"] = 0
        c["expect"] = obj["expect"]
        if obj.get("pred_expect") is not None:
            c["pred_expect"] = obj["pred_expect"]
        n = check_histories(ctx, binp, "replay-" + ctx.prop, [c], sigfn=lambda c_, f: rep["signature"])
        if n:
            print(f"VIOLATION property={ctx.prop} replay={path}")
            log("  " + ctx.violations[0][1])
            return 1
        print(f"replay {path}: no longer fails")
        return 0
    raise ToolError("unknown replay kind " + str(obj.get("kind")))


# ------------------------------------------------------------------------------------------------
# I->S: trace validation by TLC

def sanitize(x):
    """TLC's JSON reader has no null: an observation that could not be taken is the string "<null>" (trace specs test
    the accompanying ok/sane flag before they look at such a field)."""
    if x is None:
        return "<null>"
    if isinstance(x, dict):
        return {k: sanitize(v) for k, v in x.items()}
    if isinstance(x, list):
        return [sanitize(v) for v in x]
    return x


def validate_trace(ctx, name, module, events, constants=None, chunk=20000, workers=None, invariant="Check",
                   timeout=3600):
    """events: list of dicts, each with a unique "id".  TLC consumes every event (one state per event, in
    `Chains` interleaved chains so that workers share the load) and prints a REJECT line for each event the
    specification cannot explain.  Returns (rejected ids, noted ids)."""
    rejected, noted = [], []
    wd = os.path.join(WORK, "trace", name)
    shutil.rmtree(wd, ignore_errors=True)
    os.makedirs(wd, exist_ok=True)
    workers = workers or min(NCPU, 12)
    for ci in range(0, len(events), chunk):
        part = events[ci:ci + chunk]
        path = os.path.join(wd, f"trace{ci // chunk}.ndjson")
        with open(path, "w") as f:
            for e in part:
                f.write(json.dumps(sanitize(e), separators=(",", ":")) + "\n")
        chains = max(1, min(workers * 4, len(part)))
        consts = {"Chains": chains}
        if constants:
            consts.update(constants)
        cfg = cfg_text(constants=consts, invariants=[invariant])
        res = tlc(f"{name}-{ci // chunk}", module, cfg, workers=workers, env_extra={"TRACE": path},
                  jvm=["-Xss1g", "-XX:+UseParallelGC"], timeout=timeout)
        if res["violated"]:
            raise ToolError(f"trace spec {module}: invariant {res['violated']} violated (should only print)")
        if res["distinct"] != len(part):
            raise ToolError(f"trace spec {module} consumed {res['distinct']} of {len(part)} events")
        ctx.add_tlc(res, f"{module}: {len(part)} recorded events validated")
        ctx.traces += len(part)
        for r in cases_from(res["out"], "REJECT"):
            rejected.append(r["id"])
        for r in cases_from(res["out"], "NOTE"):
            noted.append(r["id"])
    return rejected, noted


def record_events(binp, kind, n, seed, name, extra=None, timeout=1800):
    """Runs a seeded random driver of the harness and returns the recorded events (list of dicts).
    A driver that dies is a tool error here; drivers catch panics of the code under test themselves and
    record them as events."""
    wd = os.path.join(WORK, "record")
    os.makedirs(wd, exist_ok=True)
    out = os.path.join(wd, name + ".ndjson")
    if os.path.exists(out):
        os.remove(out)
    args = ["record", kind, str(n), str(seed), out] + (extra or [])
    p = subprocess.run([binp] + args, env=cargo_env(), stdout=subprocess.PIPE, stderr=subprocess.PIPE, timeout=timeout)
    events = []
    if os.path.exists(out):
        for line in open(out):
            line = line.strip()
            if line:
                try:
                    events.append(json.loads(line))
                except ValueError:
                    pass
    if p.returncode != 0:
        # the driver died (abort/UB check/signal): report as an event so that the trace spec rejects it
        events.append({"id": len(events) + 10 ** 9, "ev": "abort", "rc": p.returncode,
                       "after_events": len(events), "stderr": p.stderr.decode(errors="replace")[-300:]})
    return events


def record_parallel(binp, kind, n, seed, name, jobs=8, extra=None):
    """Several seeded drivers in parallel (seed+j); ids are made unique."""
    from concurrent.futures import ThreadPoolExecutor
    per = max(1, n // jobs)
    with ThreadPoolExecutor(max_workers=jobs) as ex:
        futs = [ex.submit(record_events, binp, kind, per, seed + j, f"{name}-{j}", extra) for j in range(jobs)]
        parts = [f.result() for f in futs]
    events = []
    for j, part in enumerate(parts):
        for e in part:
            e["id"] = len(events)
            e["driver_seed"] = seed + j
            events.append(e)
    return events


def validate_stateful(ctx, name, module, groups, max_parallel=6, timeout=3400):
    """Stateful trace validation: `groups` is a list of event lists (each a self-contained trace, consumed by a
    single-chain trace spec with POSTCONDITION Consumed).  Groups are packed into a few files and validated by
    several TLC processes in parallel.  Returns the list of rejected event ids."""
    from concurrent.futures import ThreadPoolExecutor
    wd = os.path.join(WORK, "trace", name)
    shutil.rmtree(wd, ignore_errors=True)
    os.makedirs(wd, exist_ok=True)
    nfiles = max(1, min(max_parallel, len(groups)))
    files = [[] for _ in range(nfiles)]
    for i, g in enumerate(groups):
        files[i % nfiles].extend(g)

    def one(k):
        evs = files[k]
        path = os.path.join(wd, f"trace{k}.ndjson")
        with open(path, "w") as f:
            for e in evs:
                f.write(json.dumps(sanitize(e), separators=(",", ":")) + "\n")
        cfg = cfg_text(postcondition="Consumed")
        res = tlc(f"{name}-{k}", module, cfg, workers=1, env_extra={"TRACE": path}, jvm=["-Xss1g", "-XX:+UseParallelGC", "-Xmx3g"],
                  timeout=timeout)
        return res, len(evs)

    rejected = []
    with ThreadPoolExecutor(max_workers=nfiles) as ex:
        for res, n in ex.map(one, range(nfiles)):
            if res["violated"]:
                raise ToolError(f"{module}: unexpected invariant violation")
            ctx.add_tlc(res, f"{module}: {n} recorded events validated (stateful)")
            ctx.traces += n
            for r in cases_from(res["out"], "REJECT"):
                rejected.append(r["id"])
    return rejected


_cli = {}


def build_cli():
    """Builds the five command-line tools from /repo's working tree into /verif/work/target-cli."""
    if "dir" in _cli:
        return _cli["dir"]
    tdir = os.path.join(WORK, "target-cli")
    t0 = time.time()
    cmd = ["cargo", "build", "--offline", "--quiet", "-p", "predict", "-p", "evaluate", "-p", "manipulate_model", "-p", "train",
           "-p", "convert_kytea_model", "--target-dir", tdir]
    p = subprocess.run(cmd, cwd="/repo", env=cargo_env(), stdout=subprocess.PIPE, stderr=subprocess.STDOUT, text=True)
    if p.returncode != 0:
        raise BuildError("building the CLIs failed:\n" + p.stdout[-3000:])
    log(f"[build] CLIs in {time.time() - t0:.1f}s")
    _cli["dir"] = os.path.join(tdir, "debug")
    return _cli["dir"]


def _tmp_env(wd):
    """Environment that keeps a tool's scratch files under its own work directory instead of /tmp."""
    t = os.path.join(wd, "tmp")
    os.makedirs(t, exist_ok=True)
    env = dict(os.environ)
    env["TMPDIR"] = t
    env["JAVA_TOOL_OPTIONS"] = (env.get("JAVA_TOOL_OPTIONS", "") + " -Djava.io.tmpdir=" + t).strip()
    env["JVM_ARGS"] = (env.get("JVM_ARGS", "") + " -Djava.io.tmpdir=" + t).strip()
    return env


def apalache(name, module_path, init, inv, length, timeout=900):
    """Runs apalache-mc check; returns True iff it reports no error (used for inductive-invariant obligations)."""
    wd = os.path.join(WORK, "apalache", name)
    shutil.rmtree(wd, ignore_errors=True)
    os.makedirs(wd, exist_ok=True)
    cmd = ["apalache-mc", "check", f"--init={init}", f"--inv={inv}", f"--length={length}", f"--out-dir={wd}", module_path]
    try:
        p = subprocess.run(cmd, cwd=wd, stdout=subprocess.PIPE, stderr=subprocess.STDOUT, text=True, timeout=timeout, env=_tmp_env(wd))
    except subprocess.TimeoutExpired:
        raise ToolError(f"apalache timeout on {name}")
    ok = "EXITCODE: OK" in p.stdout
    if not ok and "EXITCODE: ERROR (12)" not in p.stdout and "violat" not in p.stdout.lower():
        raise ToolError(f"apalache failed on {name}:\n" + p.stdout[-1500:])
    return ok


def tlapm(name, module_path, timeout=900):
    """Runs the TLA+ proof manager on a module; returns (proved, total).  A proof that does not go through is a tool error of the
    design-level part (the obligations are fixed theorems of the specification, not verdicts about the code)."""
    wd = os.path.join(WORK, "tlapm", name)
    shutil.rmtree(wd, ignore_errors=True)
    os.makedirs(wd, exist_ok=True)
    cmd = ["tlapm", "--threads", "4", "--cleanfp", "--cache-dir", wd, module_path]
    try:
        p = subprocess.run(cmd, cwd=wd, stdout=subprocess.PIPE, stderr=subprocess.STDOUT, text=True, timeout=timeout, env=_tmp_env(wd))
    except subprocess.TimeoutExpired:
        raise ToolError(f"tlapm timeout on {name}")
    m = re.search(r"All (\d+) obligations? proved", p.stdout)
    if m:
        return int(m.group(1)), int(m.group(1))
    m = re.search(r"(\d+)/(\d+) obligations? failed", p.stdout)
    if m:
        return int(m.group(2)) - int(m.group(1)), int(m.group(2))
    raise ToolError(f"tlapm failed on {name}:\n" + p.stdout[-1500:])
