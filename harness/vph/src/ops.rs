// Generic history interpreter: a case is a list of operations on one Sentence object; after every
// operation the projection of the real object is recorded.
use std::panic::{catch_unwind, AssertUnwindSafe};

use serde_json::{json, Value};
use vaporetto::{CharacterType, Predictor, Sentence};
use vaporetto_rules::{
    sentence_filters::{
        ConcatGraphemeClustersFilter, KyteaWsConstFilter, PatternMatchTagger, SplitLinebreaksFilter,
    },
    SentenceFilter,
};

use crate::core::*;

pub fn make_filter(f: &str, rules: Option<&Value>) -> Box<dyn SentenceFilter> {
    match f {
        "D" => Box::new(KyteaWsConstFilter::new(CharacterType::Digit)),
        "R" => Box::new(KyteaWsConstFilter::new(CharacterType::Roman)),
        "H" => Box::new(KyteaWsConstFilter::new(CharacterType::Hiragana)),
        "T" => Box::new(KyteaWsConstFilter::new(CharacterType::Katakana)),
        "K" => Box::new(KyteaWsConstFilter::new(CharacterType::Kanji)),
        "O" => Box::new(KyteaWsConstFilter::new(CharacterType::Other)),
        "G" => Box::new(ConcatGraphemeClustersFilter),
        "L" => Box::new(SplitLinebreaksFilter),
        "P" => {
            // rules: [{"surf":[cp], "tags":[[cp]|[] ...]}]
            let mut map = hashbrown::HashMap::new();
            if let Some(rs) = rules.and_then(|x| x.as_array()) {
                for r in rs {
                    let tags: Vec<Option<String>> = r["tags"]
                        .as_array()
                        .cloned()
                        .unwrap_or_default()
                        .iter()
                        .map(|t| {
                            let s = cps_to_string(t);
                            if s.is_empty() {
                                None
                            } else {
                                Some(s)
                            }
                        })
                        .collect();
                    map.insert(cps_to_string(&r["surf"]), tags);
                }
            }
            Box::new(PatternMatchTagger::new(map))
        }
        _ => panic!("unknown filter {f}"),
    }
}

pub fn opts_from(case: &Value) -> ProjOpts {
    let o = &case["opts"];
    ProjOpts {
        writers: o.get("writers").and_then(|x| x.as_bool()).unwrap_or(true),
        reparse: o.get("reparse").and_then(|x| x.as_bool()).unwrap_or(false),
        cands: o.get("cands").and_then(|x| x.as_bool()).unwrap_or(false),
    }
}

/// Runs one history case.  Returns {"id":.., "preds":[..status..], "steps":[{"res","proj"}]}.
pub fn run_history(case: &Value) -> Value {
    let opts = opts_from(case);
    let pred_specs = case
        .get("preds")
        .and_then(|x| x.as_array())
        .cloned()
        .unwrap_or_default();
    let mut pred_status = vec![];
    let mut rests = vec![];
    let mut preds: Vec<Option<Predictor>> = vec![];
    for p in &pred_specs {
        match predictor_from_json_rest(p) {
            Ok((pr, rest)) => {
                pred_status.push(json!("ok"));
                rests.push(rest);
                preds.push(Some(pr));
            }
            Err(e) => {
                pred_status.push(json!(if e == "panic" {
                    "panic"
                } else if e.starts_with("rest:") {
                    "rest-mismatch"
                } else {
                    "err"
                }));
                rests.push(Value::Null);
                preds.push(None);
            }
        }
    }
    let preds = preds; // frozen: sentences borrow from here
    let ops = case["ops"].as_array().cloned().unwrap_or_default();
    // the texts of the raw updates, owned here for the whole history: every second raw update lends its text to the sentence
    let raw_texts: Vec<String> = ops
        .iter()
        .map(|op| if op["op"] == "up_raw" { cps_to_string(&op["s"]) } else { String::new() })
        .collect();
    let mut s: Sentence = Sentence::default();
    let mut steps = vec![];
    let mut n_raw_updates = 0usize;
    for (op_index, op) in ops.iter().enumerate() {
        let name = op["op"].as_str().unwrap_or("");
        let res: Value = match name {
            "new_raw" | "new_tok" | "new_part" | "build" => {
                let r = catch_unwind(AssertUnwindSafe(|| {
                    let text = cps_to_string(&op["s"]);
                    match name {
                        "new_raw" => Sentence::from_raw(text).map_err(|_| ()),
                        "new_tok" => Sentence::from_tokenized(&text).map_err(|_| ()),
                        "new_part" => Sentence::from_partial_annotation(&text).map_err(|_| ()),
                        _ => Ok(build_sentence(&op["sent"])),
                    }
                }));
                match r {
                    Ok(Ok(ns)) => {
                        s = ns;
                        json!("ok")
                    }
                    Ok(Err(())) => json!("err"),
                    Err(_) => json!("panic"),
                }
            }
            "up_raw" | "up_tok" | "up_part" => {
                let text = cps_to_string(&op["s"]);
                // raw updates alternate between an owned String and a borrowed &str (the sentence keeps either as a Cow)
                if name == "up_raw" {
                    n_raw_updates += 1;
                }
                let borrowed: Option<&str> =
                    if name == "up_raw" && n_raw_updates % 2 == 0 { Some(raw_texts[op_index].as_str()) } else { None };
                let r = catch_unwind(AssertUnwindSafe(|| match name {
                    "up_raw" => match borrowed {
                        Some(b) => s.update_raw(b).is_ok(),
                        None => s.update_raw(text).is_ok(),
                    },
                    "up_tok" => s.update_tokenized(&text).is_ok(),
                    _ => s.update_partial_annotation(&text).is_ok(),
                }));
                match r {
                    Ok(true) => json!("ok"),
                    Ok(false) => json!("err"),
                    Err(_) => json!("panic"),
                }
            }
            "reset_tags" => {
                let k = op["k"].as_u64().unwrap() as usize;
                match catch_unwind(AssertUnwindSafe(|| s.reset_tags(k))) {
                    Ok(()) => json!("ok"),
                    Err(_) => json!("panic"),
                }
            }
            "predict" => {
                let i = op["p"].as_u64().unwrap() as usize;
                match preds.get(i).and_then(|x| x.as_ref()) {
                    Some(p) => match catch_unwind(AssertUnwindSafe(|| p.predict(&mut s))) {
                        Ok(()) => json!("ok"),
                        Err(_) => json!("panic"),
                    },
                    None => json!("nopred"),
                }
            }
            #[cfg(feature = "tag-prediction")]
            "fill_tags" => match catch_unwind(AssertUnwindSafe(|| s.fill_tags())) {
                Ok(()) => json!("ok"),
                Err(_) => json!("panic"),
            },
            "set_bnd" => {
                let r = catch_unwind(AssertUnwindSafe(|| {
                    let v = op["v"].as_array().unwrap();
                    for (dst, src) in s.boundaries_mut().iter_mut().zip(v) {
                        *dst = label_from(src.as_u64().unwrap());
                    }
                }));
                if r.is_ok() {
                    json!("ok")
                } else {
                    json!("panic")
                }
            }
            "set_tag" => {
                let r = catch_unwind(AssertUnwindSafe(|| {
                    let i = op["i"].as_u64().unwrap() as usize;
                    let j = op["j"].as_u64().unwrap() as usize;
                    let nt = s.n_tags();
                    let t = cps_to_string(&op["t"]);
                    if j < nt && i * nt + j < s.tags().len() {
                        s.tags_mut()[i * nt + j] = if t.is_empty() { None } else { Some(t.into()) };
                    }
                }));
                if r.is_ok() {
                    json!("ok")
                } else {
                    json!("panic")
                }
            }
            "filter" => {
                let f = make_filter(op["f"].as_str().unwrap(), op.get("rules"));
                match catch_unwind(AssertUnwindSafe(|| f.filter(&mut s))) {
                    Ok(()) => json!("ok"),
                    Err(_) => json!("panic"),
                }
            }
            _ => json!("unknown-op"),
        };
        let o = ProjOpts {
            writers: opts.writers,
            reparse: opts.reparse,
            cands: opts.cands || op.get("cands").and_then(|x| x.as_bool()).unwrap_or(false),
        };
        steps.push(json!({"res": res, "proj": proj(&s, &o)}));
    }
    json!({"id": case["id"], "preds": pred_status, "rests": rests, "steps": steps})
}


/// case kind "dictedit": {"model":…, "newdict":[{"ng","w","c"}], "texts":[[cp]]}
/// -> scores of every text before and after Model::replace_dictionary, and the decoded model after the edit.
pub fn run_dictedit(case: &Value) -> Value {
    use vaporetto::{Model, WordWeightRecord};
    let mj = &case["model"];
    let texts: Vec<String> = case["texts"].as_array().cloned().unwrap_or_default().iter().map(cps_to_string).collect();
    let score = |m: Model| -> Value {
        let r = catch_unwind(AssertUnwindSafe(|| {
            let p = Predictor::new(m, false).map_err(|_| ())?;
            let mut out = vec![];
            for t in &texts {
                let mut s = Sentence::from_raw(t.clone()).map_err(|_| ())?;
                p.predict(&mut s);
                out.push(json!(s.boundary_scores()));
            }
            Ok::<_, ()>(Value::Array(out))
        }));
        match r {
            Ok(Ok(v)) => v,
            Ok(Err(())) => json!("err"),
            Err(_) => json!("panic"),
        }
    };
    let (Ok(m0), Ok(mut m1)) = (model_from_json(mj), model_from_json(mj)) else {
        return json!({"id": case["id"], "res": "model-rejected"});
    };
    let before = score(m0);
    let mut recs = vec![];
    let mut rec_status = vec![];
    for e in case["newdict"].as_array().cloned().unwrap_or_default() {
        let r = catch_unwind(AssertUnwindSafe(|| {
            WordWeightRecord::new(cps_to_string(&e["ng"]), ints(&e["w"]), e.get("c").map(cps_to_string).unwrap_or_default())
        }));
        match r {
            Ok(Ok(rec)) => {
                rec_status.push(json!("ok"));
                recs.push(rec);
            }
            Ok(Err(_)) => rec_status.push(json!("err")),
            Err(_) => rec_status.push(json!("panic")),
        }
    }
    let r = catch_unwind(AssertUnwindSafe(|| {
        m1.replace_dictionary(recs);
        let bytes = m1.to_vec().map_err(|_| ())?;
        let dump: Vec<Value> = m1
            .dictionary()
            .iter()
            .map(|d| json!({"ng": str_to_cps(d.get_word()), "w": d.get_weights(), "c": str_to_cps(d.get_comment())}))
            .collect();
        Ok::<_, ()>((bytes, dump, m1))
    }));
    match r {
        Ok(Ok((bytes, dump, m1))) => {
            let after_model = mmodel_decode(&bytes).map(|m| mmodel_to_json(&m)).unwrap_or(Value::Null);
            json!({"id": case["id"], "res": "ok", "records": rec_status, "before": before, "after": score(m1),
                   "model_after": after_model, "dictionary": dump})
        }
        _ => json!({"id": case["id"], "res": "panic", "records": rec_status}),
    }
}

/// case kind "pipeline": the library pipeline the command-line tools are documented to run, line by line:
/// {"model":…, "no_norm":bool, "predict_tags":bool, "wsconst":["D",…], "lines":[[cp]…], "mode":"predict"|"evaluate"}
/// predict:  per line {accepted, bnd, ntags, tags (rows), scores, tokens (with candidates when tags are predicted)}
/// evaluate: per (tokenized reference) line {ref:{bnd,ntags,tags}, sys:{bnd,ntags,tags}} (rejected lines: accepted=false)
pub fn run_pipeline(case: &Value) -> Value {
    use vaporetto_rules::{string_filters::KyteaFullwidthFilter, StringFilter};
    let no_norm = case["no_norm"].as_bool().unwrap_or(false);
    let ptags = case["predict_tags"].as_bool().unwrap_or(false);
    let evaluate = case["mode"].as_str() == Some("evaluate");
    let pred = match predictor_from_json(&json!({"model": case["model"], "tags": ptags, "store": ptags})) {
        Ok(p) => p,
        Err(e) => return json!({"id": case["id"], "res": e}),
    };
    let filters: Vec<Box<dyn SentenceFilter>> = case["wsconst"]
        .as_array()
        .cloned()
        .unwrap_or_default()
        .iter()
        .map(|f| make_filter(f.as_str().unwrap(), None))
        .collect();
    let mut lines_out = vec![];
    for l in case["lines"].as_array().cloned().unwrap_or_default() {
        let line = cps_to_string(&l);
        let r = catch_unwind(AssertUnwindSafe(|| {
            let (raw, refproj) = if evaluate {
                match Sentence::from_tokenized(&line) {
                    Ok(s) => (s.as_raw_text().to_string(), Some(proj_state(&s))),
                    Err(_) => return json!({"accepted": false}),
                }
            } else {
                (line.clone(), None)
            };
            let input = if no_norm { raw.clone() } else { KyteaFullwidthFilter.filter(&raw) };
            let mut s = match Sentence::from_raw(input.clone()) {
                Ok(s) => s,
                Err(_) => return json!({"accepted": false}),
            };
            pred.predict(&mut s);
            filters.iter().for_each(|f| f.filter(&mut s));
            #[cfg(feature = "tag-prediction")]
            if ptags {
                s.fill_tags();
            }
            let st = proj_state(&s);
            let toks = proj_tokens(&s, ptags && s.n_tags() > 0);
            let mut o = json!({"accepted": true, "norm": str_to_cps(&input), "bnd": st["bnd"], "ntags": st["ntags"], "tags": st["tags"],
                               "scores": st["scores"], "tokens": toks});
            if let Some(rp) = refproj {
                o["ref"] = json!({"bnd": rp["bnd"], "ntags": rp["ntags"], "tags": rp["tags"]});
            }
            o
        }));
        lines_out.push(r.unwrap_or(json!({"accepted": false, "panic": true})));
    }
    json!({"id": case["id"], "res": "ok", "lines": lines_out})
}
