// Utilities around the command-line tools (C19, C20): model files for the CLIs are zstd-compressed.
use std::io::{Read, Write};

use serde_json::Value;

use crate::core::*;

/// mkmodel <model.json> <out.zst>   (model.json: the JSON model shape of the harness)
pub fn mkmodel(args: &[String]) {
    let v: Value = serde_json::from_str(&std::fs::read_to_string(&args[0]).expect("read json")).expect("json");
    let bytes = mmodel_bytes(&mmodel_from_json(&v));
    let f = std::fs::File::create(&args[1]).expect("create");
    let mut enc = zstd::Encoder::new(f, 3).expect("zstd");
    enc.write_all(&bytes).unwrap();
    enc.finish().unwrap();
}

/// unzstd <in.zst> <out>
pub fn unzstd(args: &[String]) {
    let f = std::fs::File::open(&args[0]).expect("open");
    let mut dec = zstd::Decoder::new(f).expect("zstd");
    let mut buf = vec![];
    if dec.read_to_end(&mut buf).is_err() {
        std::process::exit(3);
    }
    std::fs::write(&args[1], buf).unwrap();
}

/// decode <model.bin> : prints the JSON of a raw (uncompressed) model file, or "null"
pub fn decode(args: &[String]) {
    let data = std::fs::read(&args[0]).expect("read");
    match mmodel_decode(&data) {
        Some(m) => println!("{}", mmodel_to_json(&m)),
        None => println!("null"),
    }
}
