// KyTea conversion driver (C17): reads a KyTea binary model file, converts it, reports the converted model
// and the outcome of reading every proper prefix of the file.
use std::io::Cursor;
use std::panic::{catch_unwind, AssertUnwindSafe};

use serde_json::{json, Value};
use vaporetto::{KyteaModel, Model, Predictor, Sentence};

use crate::core::*;

fn convert(data: &[u8]) -> (String, Option<Vec<u8>>, u64) {
    let mut cur = Cursor::new(data);
    let r = catch_unwind(AssertUnwindSafe(|| {
        let km = KyteaModel::read(&mut cur).map_err(|_| "err")?;
        let m = Model::try_from(km).map_err(|_| "converr")?;
        m.to_vec().map_err(|_| "writeerr")
    }));
    let pos = cur.position();
    match r {
        Ok(Ok(b)) => ("ok".into(), Some(b), pos),
        Ok(Err(e)) => (e.into(), None, pos),
        Err(_) => ("panic".into(), None, pos),
    }
}

/// case kind "kytea": {"path": file, "probes": [[cp]], "cuts": bool, "cut_step": n}
pub fn run_case(case: &Value) -> Value {
    let data = std::fs::read(case["path"].as_str().unwrap()).expect("kytea file");
    let (res, bytes, consumed) = convert(&data);
    let mut out = json!({"id": case["id"], "res": res, "consumed": consumed, "len": data.len()});
    let Some(bytes) = bytes else { return out };
    out["model"] = mmodel_decode(&bytes).map(|m| mmodel_to_json(&m)).unwrap_or(Value::Null);
    // predictions of the converted model on the probe texts
    let pr = catch_unwind(AssertUnwindSafe(|| {
        let (m, _) = Model::read_slice(&bytes).map_err(|_| ())?;
        let p = Predictor::new(m, false).map_err(|_| ())?;
        let mut v = vec![];
        for t in case["probes"].as_array().cloned().unwrap_or_default() {
            let mut s = Sentence::from_raw(cps_to_string(&t)).map_err(|_| ())?;
            p.predict(&mut s);
            v.push(json!(s.boundary_scores()));
        }
        Ok::<_, ()>(Value::Array(v))
    }));
    out["probe_scores"] = match pr {
        Ok(Ok(v)) => v,
        _ => json!("fail"),
    };
    if case["cuts"].as_bool().unwrap_or(false) {
        let step = case["cut_step"].as_u64().unwrap_or(1).max(1) as usize;
        let mut cuts = vec![];
        let mut c = 0;
        while c < data.len() {
            let (r, b, _) = convert(&data[..c]);
            cuts.push(json!({"cut": c, "res": r, "same": b.as_ref() == Some(&bytes)}));
            c += step;
        }
        out["cuts"] = Value::Array(cuts);
    }
    out
}
