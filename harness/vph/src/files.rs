// Fault enumeration for model files (C07): every truncation point, every header corruption, every
// position at which the underlying reader/writer can fail, chunked and interrupted I/O, trailing bytes.
// Each outcome is one trace event validated by Trace_Files.tla.
use std::io::{self, Read, Write};
use std::panic::{catch_unwind, AssertUnwindSafe};

use serde_json::{json, Value};
use vaporetto::{Model, Predictor, Sentence};

use crate::core::*;

/// Reader over a byte slice that hands out at most `chunk` bytes per call, reports
/// `Interrupted` on every `intr`-th call (0 = never) and fails with an I/O error once `fail_at`
/// bytes have been delivered (None = never).
pub struct ScriptedReader<'a> {
    pub data: &'a [u8],
    pub pos: usize,
    pub chunk: usize,
    pub intr: usize,
    pub calls: usize,
    pub fail_at: Option<usize>,
}

impl Read for ScriptedReader<'_> {
    fn read(&mut self, buf: &mut [u8]) -> io::Result<usize> {
        self.calls += 1;
        if self.intr != 0 && self.calls % self.intr == 0 {
            return Err(io::Error::new(io::ErrorKind::Interrupted, "interrupted"));
        }
        if let Some(f) = self.fail_at {
            if self.pos >= f {
                return Err(io::Error::new(io::ErrorKind::Other, "injected read fault"));
            }
        }
        let mut n = buf.len().min(self.chunk).min(self.data.len() - self.pos);
        if let Some(f) = self.fail_at {
            n = n.min(f - self.pos);
        }
        buf[..n].copy_from_slice(&self.data[self.pos..self.pos + n]);
        self.pos += n;
        Ok(n)
    }
}

pub struct ScriptedWriter {
    pub out: Vec<u8>,
    pub chunk: usize,
    pub intr: usize,
    pub calls: usize,
    pub fail_at: Option<usize>,
}

impl Write for ScriptedWriter {
    fn write(&mut self, buf: &[u8]) -> io::Result<usize> {
        self.calls += 1;
        if self.intr != 0 && self.calls % self.intr == 0 {
            return Err(io::Error::new(io::ErrorKind::Interrupted, "interrupted"));
        }
        if let Some(f) = self.fail_at {
            if self.out.len() >= f {
                return Err(io::Error::new(io::ErrorKind::Other, "injected write fault"));
            }
        }
        let mut n = buf.len().min(self.chunk);
        if let Some(f) = self.fail_at {
            n = n.min(f - self.out.len());
        }
        self.out.extend_from_slice(&buf[..n]);
        Ok(n)
    }
    fn flush(&mut self) -> io::Result<()> {
        Ok(())
    }
}

fn outcome_model(r: std::thread::Result<vaporetto::errors::Result<Model>>) -> (String, Option<Model>) {
    match r {
        Ok(Ok(m)) => ("ok".into(), Some(m)),
        Ok(Err(_)) => ("err".into(), None),
        Err(_) => ("panic".into(), None),
    }
}

fn reser(m: &Option<Model>) -> Value {
    match m {
        Some(m) => match catch_unwind(AssertUnwindSafe(|| m.to_vec())) {
            Ok(Ok(v)) => json!(v),
            _ => json!([-1]),
        },
        None => json!([]),
    }
}

fn predict_obs(bytes: &[u8], texts: &[String]) -> Value {
    // observations of the predictor built from a serialisation (used for "predicts identically")
    let r = catch_unwind(AssertUnwindSafe(|| {
        let (m, _) = Model::read_slice(bytes).map_err(|_| ())?;
        let p = Predictor::new(m, true).map_err(|_| ())?;
        let mut out = vec![];
        let mut s = Sentence::default();
        for t in texts {
            if s.update_raw(t.clone()).is_err() {
                continue;
            }
            p.predict(&mut s);
            s.fill_tags();
            out.push(proj_state(&s));
        }
        Ok::<_, ()>(Value::Array(out))
    }));
    match r {
        Ok(Ok(v)) => v,
        _ => json!("fail"),
    }
}

/// A large well-formed model (n distinct character unigrams under window 255: 510 weights each), built directly as bytes;
/// reports how the reader and the slice reader treat it (digests only: the file has tens of megabytes).
pub fn big_event(n: usize) -> Value {
    let mut m = MModel { cng: Vec::with_capacity(n), tng: vec![], dict: vec![], bias: -7, cw: 255, tw: 1, tags: vec![] };
    for i in 0..n {
        let c = char::from_u32(0x10000 + i as u32).unwrap();
        let w: Vec<i32> = (0..510).map(|k| ((i + k) % 23) as i32 - 11).collect();
        m.cng.push(MNgram { ngram: c.to_string(), weights: w });
    }
    let bytes = mmodel_bytes(&m);
    drop(m);
    let l = bytes.len();
    let mut rd = ScriptedReader { data: &bytes, pos: 0, chunk: 1 << 16, intr: 0, calls: 0, fail_at: None };
    let (roc, rm) = outcome_model(catch_unwind(AssertUnwindSafe(|| Model::read(&mut rd))));
    let consumed = rd.pos;
    let same = |m: &Option<Model>| match m {
        Some(m) => catch_unwind(AssertUnwindSafe(|| m.to_vec().map(|v| v == bytes).unwrap_or(false))).unwrap_or(false),
        None => false,
    };
    let rsame = same(&rm);
    drop(rm);
    let r = catch_unwind(|| Model::read_slice(&bytes).map(|(m, rest)| (m, rest.len())));
    let (soc, sm, rest_len) = match r {
        Ok(Ok((m, rl))) => ("ok", Some(m), rl as i64),
        Ok(Err(_)) => ("err", None, -1),
        Err(_) => ("panic", None, -1),
    };
    let ssame = same(&sm);
    json!({"file": format!("big{n}"), "op": "big", "len": l, "ngrams": n, "read_outcome": roc, "consumed": consumed, "reader_same": rsame,
           "slice_outcome": soc, "slice_same": ssame, "rest_len": rest_len})
}

/// files <models.ndjson> <out.ndjson> <full:0|1> [extra model file ...]
/// models.ndjson: one {"model": <json>, "texts": [[cp]..]} per line
pub fn run(args: &[String]) {
    let inp = std::fs::read_to_string(&args[0]).expect("read models");
    let mut out = std::io::BufWriter::new(std::fs::File::create(&args[1]).expect("out"));
    let full = args[2] == "1";
    let mut files: Vec<(String, Vec<u8>, Vec<String>)> = vec![];
    for (i, line) in inp.lines().enumerate() {
        if line.trim().is_empty() {
            continue;
        }
        let v: Value = serde_json::from_str(line).unwrap();
        let bytes = mmodel_bytes(&mmodel_from_json(&v["model"]));
        let texts = v["texts"]
            .as_array()
            .cloned()
            .unwrap_or_default()
            .iter()
            .map(cps_to_string)
            .collect();
        files.push((format!("gen{i}"), bytes, texts));
    }
    for p in &args[3..] {
        let bytes = std::fs::read(p).expect("read model file");
        files.push((p.clone(), bytes, vec!["まぁ社長は火星猫だ".to_string(), "a".to_string()]));
    }
    let mut id = 0u64;
    let mut emit = |out: &mut dyn Write, mut e: Value| {
        e["id"] = json!(id);
        e["ev"] = json!("file");
        id += 1;
        writeln!(out, "{}", e).unwrap();
    };
    for (name, bytes, texts) in &files {
        let l = bytes.len();
        // 0. the generated bytes must be what the real writer produces for the model they decode to
        let (oc, m0) = outcome_model(catch_unwind(|| Model::read_slice(bytes).map(|x| x.0)));
        emit(&mut out, json!({"file": name, "op": "canon", "len": l, "outcome": oc, "bytes": bytes, "reser": reser(&m0)}));
        let Some(m0) = m0 else { continue };
        // 1. round trips: slice and reader, with trailing bytes; predictions of the re-read model
        for trail in [vec![], vec![0u8], vec![1, 2, 3, 250, 251, 255], b"VaporettoTokenizer 0.5.0\n".to_vec()] {
            let mut data = bytes.clone();
            data.extend_from_slice(&trail);
            let r = catch_unwind(|| Model::read_slice(&data).map(|(m, rest)| (m, rest.to_vec())));
            let (oc, m, rest) = match r {
                Ok(Ok((m, rest))) => ("ok", Some(m), json!(rest)),
                Ok(Err(_)) => ("err", None, json!([-1])),
                Err(_) => ("panic", None, json!([-1])),
            };
            let rs = reser(&m);
            let same_pred = match rs.as_array() {
                Some(a) if !a.is_empty() => {
                    let b2: Vec<u8> = a.iter().map(|x| x.as_i64().unwrap_or(0) as u8).collect();
                    json!({"a": predict_obs(bytes, texts), "b": predict_obs(&b2, texts)})
                }
                _ => json!({"a": 0, "b": 1}),
            };
            emit(&mut out, json!({"file": name, "op": "read_slice_full", "len": l, "trail": trail, "outcome": oc,
                                  "rest": rest, "bytes": bytes, "reser": rs, "pred": same_pred}));
            // the complete file through readers that deliver it in pieces (first piece shorter than / as long as / one longer
            // than the 25-byte header; single bytes; interrupted calls): same model, exactly the file consumed
            for (chunk, intr) in [(usize::MAX, 0usize), (1, 0), (3, 2), (7, 3), (24, 0), (25, 0), (26, 5)] {
                let mut rd = ScriptedReader { data: &data, pos: 0, chunk, intr, calls: 0, fail_at: None };
                let (oc, m) = outcome_model(catch_unwind(AssertUnwindSafe(|| Model::read(&mut rd))));
                emit(&mut out, json!({"file": name, "op": "read_full", "len": l, "trail": trail, "chunk": chunk.min(99), "intr": intr,
                                      "outcome": oc, "consumed": rd.pos, "bytes": bytes, "reser": reser(&m)}));
            }
        }
        // 2. writer: plain, chunked, interrupted; the bytes must be the same as to_vec
        for (chunk, intr) in [(usize::MAX, 0usize), (1, 0), (3, 2), (7, 3)] {
            let mut w = ScriptedWriter { out: vec![], chunk, intr, calls: 0, fail_at: None };
            let r = catch_unwind(AssertUnwindSafe(|| m0.write(&mut w)));
            let oc = match r {
                Ok(Ok(())) => "ok",
                Ok(Err(_)) => "err",
                Err(_) => "panic",
            };
            emit(&mut out, json!({"file": name, "op": "write_full", "len": l, "chunk": chunk.min(99), "intr": intr,
                                  "outcome": oc, "bytes": bytes, "written": w.out}));
        }
        // 3. every truncation point (proper prefixes), slice and reader (reader also chunked/interrupted)
        let step = if full || l <= 600 { 1 } else { (l / 400).max(1) };
        let mut cut = 0;
        while cut < l {
            let pre = &bytes[..cut];
            let r = catch_unwind(|| Model::read_slice(pre).map(|x| x.0));
            let (oc, _) = outcome_model(r);
            emit(&mut out, json!({"file": name, "op": "read_slice", "len": l, "cut": cut, "outcome": oc}));
            for (chunk, intr) in [(usize::MAX, 0usize), (1, 2)] {
                let mut rd = ScriptedReader { data: pre, pos: 0, chunk, intr, calls: 0, fail_at: None };
                let (oc, _) = outcome_model(catch_unwind(AssertUnwindSafe(|| Model::read(&mut rd))));
                emit(&mut out, json!({"file": name, "op": "read", "len": l, "cut": cut, "chunk": chunk.min(99), "intr": intr, "outcome": oc}));
            }
            // a reader that fails (I/O error) after `cut` bytes of the complete file
            let mut rd = ScriptedReader { data: bytes, pos: 0, chunk: 5, intr: 0, calls: 0, fail_at: Some(cut) };
            let (oc, _) = outcome_model(catch_unwind(AssertUnwindSafe(|| Model::read(&mut rd))));
            emit(&mut out, json!({"file": name, "op": "read_fault", "len": l, "fault": cut, "outcome": oc}));
            // a writer that fails after `cut` bytes
            let mut w = ScriptedWriter { out: vec![], chunk: 4, intr: 0, calls: 0, fail_at: Some(cut) };
            let r = catch_unwind(AssertUnwindSafe(|| m0.write(&mut w)));
            let oc = match r {
                Ok(Ok(())) => "ok",
                Ok(Err(_)) => "err",
                Err(_) => "panic",
            };
            emit(&mut out, json!({"file": name, "op": "write_fault", "len": l, "fault": cut, "outcome": oc, "nwritten": w.out.len()}));
            cut += step;
        }
        // 4. foreign headers: every single-byte corruption of the magic (two replacement values)
        for pos in 0..MAGIC.len().min(l) {
            for delta in [1u8, 0x80] {
                let mut data = bytes.clone();
                data[pos] ^= delta;
                let (oc, _) = outcome_model(catch_unwind(|| Model::read_slice(&data).map(|x| x.0)));
                emit(&mut out, json!({"file": name, "op": "header_slice", "len": l, "pos": pos, "outcome": oc}));
                let mut rd = ScriptedReader { data: &data, pos: 0, chunk: usize::MAX, intr: 0, calls: 0, fail_at: None };
                let (oc, _) = outcome_model(catch_unwind(AssertUnwindSafe(|| Model::read(&mut rd))));
                emit(&mut out, json!({"file": name, "op": "header_read", "len": l, "pos": pos, "outcome": oc}));
            }
        }
    }
    // 5. one large model (VERIF_BIG_NGRAMS unigrams, window 255)
    if let Some(n) = std::env::var("VERIF_BIG_NGRAMS").ok().and_then(|x| x.parse::<usize>().ok()) {
        if n > 0 {
            emit(&mut out, big_event(n));
        }
    }
    out.flush().unwrap();
}
