// Trainer driver (C09-C12): runs the real Trainer on a small corpus, reads the stored examples and the
// learner's quantised output back through the verif-hooks, and exercises the returned model.
use std::panic::{catch_unwind, AssertUnwindSafe};

use serde_json::{json, Value};
use vaporetto::verif_hooks::{take_train_log, FeatureDesc};
use vaporetto::{Model, Predictor, Sentence, SolverType, Trainer};

use crate::core::*;

fn feat_json(f: &FeatureDesc) -> Value {
    match f {
        FeatureDesc::Char { ngram, rel } => json!({"k": "c", "ng": str_to_cps(ngram), "rel": rel}),
        FeatureDesc::Type { ngram, rel } => json!({"k": "t", "ng": ngram, "rel": rel}),
        FeatureDesc::Dict { length, side } => json!({"k": "d", "len": length, "side": side}),
    }
}

fn solver_of(n: u64) -> SolverType {
    match n {
        0 => SolverType::L2RegularizedLogistic,
        1 => SolverType::L2RegularizedL2LossSVCDual,
        2 => SolverType::L2RegularizedL2LossSVC,
        3 => SolverType::L2RegularizedL1LossSVCDual,
        4 => SolverType::CrammerSingerSVC,
        5 => SolverType::L1RegularizedL2LossSVC,
        6 => SolverType::L1RegularizedLogistic,
        _ => SolverType::L2RegularizedLogisticDual,
    }
}

fn parse_sent(v: &Value) -> Result<Sentence<'static, 'static>, ()> {
    let s = cps_to_string(&v["s"]);
    let r = catch_unwind(AssertUnwindSafe(|| match v["fmt"].as_str().unwrap_or("tok") {
        "build" => Ok(build_sentence(&v["sent"])),
        "tok" => Sentence::from_tokenized(&s).map_err(|_| ()),
        "part" => Sentence::from_partial_annotation(&s).map_err(|_| ()),
        _ => Sentence::from_raw(s.clone()).map_err(|_| ()),
    }));
    match r {
        Ok(x) => x,
        Err(_) => Err(()),
    }
}

fn i16_ok(m: &MModel) -> bool {
    let ok = |w: &i32| *w >= -32768 && *w <= 32767;
    ok(&m.bias)
        && m.cng.iter().all(|e| e.weights.iter().all(ok))
        && m.tng.iter().all(|e| e.weights.iter().all(ok))
        && m.dict.iter().all(|e| e.weights.iter().all(ok))
        && m.tags.iter().all(|t| {
            t.bias.iter().all(ok)
                && t.cng.iter().all(|e| e.weights.iter().all(|w| w.weights.iter().all(ok)))
                && t.tng.iter().all(|e| e.weights.iter().all(|w| w.weights.iter().all(ok)))
        })
}

/// case kind "train"
pub fn run_case(case: &Value) -> Value {
    let cfg = &case["cfg"];
    let u8of = |k: &str| cfg[k].as_u64().unwrap_or(0) as u8;
    let dict: Vec<String> = cfg["dict"].as_array().cloned().unwrap_or_default().iter().map(cps_to_string).collect();
    let mut out = json!({"id": case["id"]});
    let mut corpus = vec![];
    for v in case["corpus"].as_array().cloned().unwrap_or_default() {
        match parse_sent(&v) {
            Ok(s) => corpus.push(s),
            Err(()) => {
                out["corpus_error"] = json!(true);
                return out;
            }
        }
    }
    let mut tagdict = vec![];
    for v in case["tagdict"].as_array().cloned().unwrap_or_default() {
        match parse_sent(&v) {
            Ok(s) => tagdict.push(s),
            Err(()) => {
                out["corpus_error"] = json!(true);
                return out;
            }
        }
    }
    let _ = take_train_log();
    let tr = catch_unwind(AssertUnwindSafe(|| {
        Trainer::new(u8of("cw"), u8of("cn"), u8of("tw"), u8of("tn"), dict.clone(), u8of("dn"), &tagdict)
    }));
    let mut trainer = match tr {
        Ok(Ok(t)) => t,
        Ok(Err(_)) => {
            out["trainer_new"] = json!("err");
            return out;
        }
        Err(_) => {
            out["trainer_new"] = json!("panic");
            return out;
        }
    };
    out["trainer_new"] = json!("ok");
    // add the sentences one by one; read the stored examples after each
    let mut per_sentence = vec![];
    let mut seen = 0usize;
    let mut add_ok = true;
    for s in &corpus {
        let r = catch_unwind(AssertUnwindSafe(|| trainer.add_example(s)));
        if r.is_err() {
            per_sentence.push(json!("panic"));
            add_ok = false;
            break;
        }
        let ex = trainer.verif_examples();
        let new: Vec<Value> = ex[seen..]
            .iter()
            .map(|(fs, y)| {
                json!({"label": *y as i64,
                       "feats": fs.iter().map(|(f, c)| { let mut j = feat_json(f); j["cnt"] = json!(*c as i64); j }).collect::<Vec<_>>()})
            })
            .collect();
        seen = ex.len();
        per_sentence.push(Value::Array(new));
    }
    out["examples"] = Value::Array(per_sentence);
    if !add_ok || !case["train"].as_bool().unwrap_or(true) {
        return out;
    }
    let solver = solver_of(cfg["solver"].as_u64().unwrap_or(1));
    let eps = cfg["eps"].as_f64().unwrap_or(0.01);
    let cost = cfg["cost"].as_f64().unwrap_or(1.0);
    let r = catch_unwind(AssertUnwindSafe(|| trainer.train(eps, cost, solver)));
    let model: Model = match r {
        Ok(Ok(m)) => m,
        Ok(Err(_)) => {
            out["train"] = json!("err");
            return out;
        }
        Err(_) => {
            out["train"] = json!("panic");
            return out;
        }
    };
    out["train"] = json!("ok");
    let log = take_train_log();
    if let Some(b) = &log.boundary {
        out["qbias"] = json!(b.bias);
        out["q"] = Value::Array(b.weights.iter().map(|(f, w)| json!({"f": feat_json(f), "q": w})).collect());
    }
    out["tagq"] = Value::Array(
        log.tags
            .iter()
            .map(|e| {
                let f = match &e.feature {
                    Some(f) => feat_json(f),
                    None => json!({"k": "bias"}),
                };
                json!({"token": str_to_cps(&e.token), "cat": e.category, "cls": e.class, "f": f, "q": e.value})
            })
            .collect(),
    );
    // the returned model: serialise, decode (mirror), re-read
    let bytes = match catch_unwind(AssertUnwindSafe(|| model.to_vec())) {
        Ok(Ok(b)) => b,
        Ok(Err(_)) => {
            out["write"] = json!("err");
            return out;
        }
        Err(_) => {
            out["write"] = json!("panic");
            return out;
        }
    };
    out["write"] = json!("ok");
    if case["want_bytes"].as_bool().unwrap_or(false) {
        out["model_bytes"] = json!(bytes);
    }
    match mmodel_decode(&bytes) {
        Some(mm) => {
            out["weights_i16"] = json!(i16_ok(&mm));
            out["model"] = mmodel_to_json(&mm);
        }
        None => {
            out["model"] = Value::Null;
        }
    }
    let reread = |b: &[u8]| catch_unwind(AssertUnwindSafe(|| Model::read_slice(b).map(|x| x.0)));
    let st = |r: &std::thread::Result<vaporetto::errors::Result<Model>>| match r {
        Ok(Ok(_)) => "ok",
        Ok(Err(_)) => "err",
        Err(_) => "panic",
    };
    let r1 = reread(&bytes);
    out["read"] = json!(st(&r1));
    let r2 = reread(&bytes);
    let (Ok(Ok(m1)), Ok(Ok(m2))) = (r1, r2) else { return out };
    let p0 = catch_unwind(AssertUnwindSafe(|| Predictor::new(m1, false)));
    let p1 = catch_unwind(AssertUnwindSafe(|| {
        Predictor::new(m2, true).map(|mut p| {
            p.store_tag_scores(true);
            p
        })
    }));
    let ps = |r: &std::thread::Result<vaporetto::errors::Result<Predictor>>| match r {
        Ok(Ok(_)) => "ok",
        Ok(Err(_)) => "err",
        Err(_) => "panic",
    };
    out["pred_notags"] = json!(ps(&p0));
    out["pred_tags"] = json!(ps(&p1));
    // evaluation sentences may carry (partial) annotations: the features the TRAINER extracts for their annotated
    // boundaries are read back from a second trainer with the same configuration
    let eval_specs: Vec<Value> = case["eval"].as_array().cloned().unwrap_or_default();
    let eval_sents: Vec<Option<Sentence>> = eval_specs
        .iter()
        .map(|t| {
            if t.is_object() {
                parse_sent(t).ok()
            } else {
                None
            }
        })
        .collect();
    let mut extracted: Vec<Value> = vec![Value::Null; eval_specs.len()];
    {
        let r = catch_unwind(AssertUnwindSafe(|| {
            let empty: Vec<Sentence> = vec![];
            let mut t2 = Trainer::new(u8of("cw"), u8of("cn"), u8of("tw"), u8of("tn"), dict.clone(), u8of("dn"), &empty).map_err(|_| ())?;
            let mut seen = 0usize;
            let mut res = vec![];
            for s in &eval_sents {
                match s {
                    Some(s) => {
                        t2.add_example(s);
                        let ex = t2.verif_examples();
                        let new: Vec<Value> = ex[seen..]
                            .iter()
                            .map(|(fs, _)| Value::Array(fs.iter().map(|(f, c)| json!({"f": feat_json(f), "cnt": *c as i64})).collect()))
                            .collect();
                        seen = ex.len();
                        res.push(Value::Array(new));
                    }
                    None => res.push(Value::Null),
                }
            }
            Ok::<_, ()>(res)
        }));
        if let Ok(Ok(res)) = r {
            extracted = res;
        } else {
            out["extract_failed"] = json!(true);
        }
    }
    let mut evals = vec![];
    for (ei, t) in eval_specs.iter().enumerate() {
        let (text, t) = match &eval_sents[ei] {
            Some(s) => (s.as_raw_text().to_string(), str_to_cps(s.as_raw_text())),
            None => (cps_to_string(t), t.clone()),
        };
        let mut e = json!({"text": t});
        if let Some(s) = &eval_sents[ei] {
            e["labels"] = json!(s.boundaries().iter().map(|&b| b as u8).collect::<Vec<_>>());
            e["feats"] = extracted[ei].clone();
        }
        if let Ok(Ok(p)) = &p0 {
            let r = catch_unwind(AssertUnwindSafe(|| {
                let mut s = Sentence::from_raw(text.clone()).map_err(|_| ())?;
                p.predict(&mut s);
                Ok::<_, ()>(json!({"scores": s.boundary_scores(), "bnd": s.boundaries().iter().map(|&b| b as u8).collect::<Vec<_>>()}))
            }));
            e["notags"] = match r {
                Ok(Ok(v)) => v,
                Ok(Err(())) => json!("err"),
                Err(_) => json!("panic"),
            };
        }
        if let Ok(Ok(p)) = &p1 {
            let r = catch_unwind(AssertUnwindSafe(|| {
                let mut s = Sentence::from_raw(text.clone()).map_err(|_| ())?;
                p.predict(&mut s);
                s.fill_tags();
                let st = proj_state(&s);
                let toks = proj_tokens(&s, s.n_tags() > 0);
                Ok::<_, ()>(json!({"scores": st["scores"], "bnd": st["bnd"], "ntags": st["ntags"], "tags": st["tags"], "tokens": toks}))
            }));
            e["tags"] = match r {
                Ok(Ok(v)) => v,
                Ok(Err(())) => json!("err"),
                Err(_) => json!("panic"),
            };
        }
        evals.push(e);
    }
    out["eval"] = Value::Array(evals);
    out
}
