// Core of the conformance harness: constructors (JSON -> real objects) and the projection
// (real object -> JSON abstract state).  No semantics of vaporetto is re-implemented here.
#![allow(dead_code)]

use std::panic::{catch_unwind, AssertUnwindSafe};

use serde_json::{json, Value};
use vaporetto::{CharacterBoundary, Model, Predictor, Sentence};

// ---------------------------------------------------------------------------------------------
// code points <-> strings

pub fn cps_to_string(v: &Value) -> String {
    v.as_array()
        .map(|a| {
            a.iter()
                .map(|x| char::from_u32(x.as_u64().unwrap() as u32).unwrap())
                .collect()
        })
        .unwrap_or_default()
}

pub fn str_to_cps(s: &str) -> Value {
    Value::Array(s.chars().map(|c| json!(c as u32)).collect())
}

pub fn ints(v: &Value) -> Vec<i32> {
    v.as_array()
        .map(|a| a.iter().map(|x| x.as_i64().unwrap() as i32).collect())
        .unwrap_or_default()
}

pub fn bytes(v: &Value) -> Vec<u8> {
    v.as_array()
        .map(|a| a.iter().map(|x| x.as_u64().unwrap() as u8).collect())
        .unwrap_or_default()
}

// ---------------------------------------------------------------------------------------------
// Model construction through the on-disk format (mirror structs, bincode standard config).

#[derive(bincode::Encode, bincode::Decode, Debug, Clone)]
pub struct MNgram<T> {
    pub ngram: T,
    pub weights: Vec<i32>,
}
#[derive(bincode::Encode, bincode::Decode, Debug, Clone)]
pub struct MWord {
    pub word: String,
    pub weights: Vec<i32>,
    pub comment: String,
}
#[derive(bincode::Encode, bincode::Decode, Debug, Clone)]
pub struct MTagWeight {
    pub rel: u8,
    pub weights: Vec<i32>,
}
#[derive(bincode::Encode, bincode::Decode, Debug, Clone)]
pub struct MTagNgram<T> {
    pub ngram: T,
    pub weights: Vec<MTagWeight>,
}
#[derive(bincode::Encode, bincode::Decode, Debug, Clone)]
pub struct MTagModel {
    pub token: String,
    pub tags: Vec<Vec<String>>,
    pub cng: Vec<MTagNgram<String>>,
    pub tng: Vec<MTagNgram<Vec<u8>>>,
    pub bias: Vec<i32>,
}
#[derive(bincode::Encode, bincode::Decode, Debug, Clone)]
pub struct MModel {
    pub cng: Vec<MNgram<String>>,
    pub tng: Vec<MNgram<Vec<u8>>>,
    pub dict: Vec<MWord>,
    pub bias: i32,
    pub cw: u8,
    pub tw: u8,
    pub tags: Vec<MTagModel>,
}

pub const MAGIC: &[u8] = b"VaporettoTokenizer 0.5.0\n";

pub fn mmodel_from_json(m: &Value) -> MModel {
    let arr = |k: &str| m.get(k).and_then(|x| x.as_array()).cloned().unwrap_or_default();
    MModel {
        cng: arr("cng")
            .iter()
            .map(|e| MNgram {
                ngram: cps_to_string(&e["ng"]),
                weights: ints(&e["w"]),
            })
            .collect(),
        tng: arr("tng")
            .iter()
            .map(|e| MNgram {
                ngram: bytes(&e["ng"]),
                weights: ints(&e["w"]),
            })
            .collect(),
        dict: arr("dict")
            .iter()
            .map(|e| MWord {
                word: cps_to_string(&e["ng"]),
                weights: ints(&e["w"]),
                comment: e.get("c").map(cps_to_string).unwrap_or_default(),
            })
            .collect(),
        bias: m["bias"].as_i64().unwrap_or(0) as i32,
        cw: m["cw"].as_u64().unwrap_or(0) as u8,
        tw: m["tw"].as_u64().unwrap_or(0) as u8,
        tags: arr("tags")
            .iter()
            .map(|t| MTagModel {
                token: cps_to_string(&t["token"]),
                tags: t["cats"]
                    .as_array()
                    .cloned()
                    .unwrap_or_default()
                    .iter()
                    .map(|c| {
                        c.as_array()
                            .cloned()
                            .unwrap_or_default()
                            .iter()
                            .map(cps_to_string)
                            .collect()
                    })
                    .collect(),
                cng: t["cng"]
                    .as_array()
                    .cloned()
                    .unwrap_or_default()
                    .iter()
                    .map(|e| MTagNgram {
                        ngram: cps_to_string(&e["ng"]),
                        weights: e["tw"]
                            .as_array()
                            .cloned()
                            .unwrap_or_default()
                            .iter()
                            .map(|w| MTagWeight {
                                rel: w["rel"].as_u64().unwrap() as u8,
                                weights: ints(&w["w"]),
                            })
                            .collect(),
                    })
                    .collect(),
                tng: t["tng"]
                    .as_array()
                    .cloned()
                    .unwrap_or_default()
                    .iter()
                    .map(|e| MTagNgram {
                        ngram: bytes(&e["ng"]),
                        weights: e["tw"]
                            .as_array()
                            .cloned()
                            .unwrap_or_default()
                            .iter()
                            .map(|w| MTagWeight {
                                rel: w["rel"].as_u64().unwrap() as u8,
                                weights: ints(&w["w"]),
                            })
                            .collect(),
                    })
                    .collect(),
                bias: ints(&t["bias"]),
            })
            .collect(),
    }
}

pub fn mmodel_to_json(m: &MModel) -> Value {
    json!({
        "bias": m.bias, "cw": m.cw, "tw": m.tw,
        "cng": m.cng.iter().map(|e| json!({"ng": str_to_cps(&e.ngram), "w": e.weights})).collect::<Vec<_>>(),
        "tng": m.tng.iter().map(|e| json!({"ng": e.ngram, "w": e.weights})).collect::<Vec<_>>(),
        "dict": m.dict.iter().map(|e| json!({"ng": str_to_cps(&e.word), "w": e.weights, "c": str_to_cps(&e.comment)})).collect::<Vec<_>>(),
        "tags": m.tags.iter().map(|t| json!({
            "token": str_to_cps(&t.token),
            "cats": t.tags.iter().map(|c| c.iter().map(|s| str_to_cps(s)).collect::<Vec<_>>()).collect::<Vec<_>>(),
            "cng": t.cng.iter().map(|e| json!({"ng": str_to_cps(&e.ngram),
                    "tw": e.weights.iter().map(|w| json!({"rel": w.rel, "w": w.weights})).collect::<Vec<_>>()})).collect::<Vec<_>>(),
            "tng": t.tng.iter().map(|e| json!({"ng": e.ngram,
                    "tw": e.weights.iter().map(|w| json!({"rel": w.rel, "w": w.weights})).collect::<Vec<_>>()})).collect::<Vec<_>>(),
            "bias": t.bias,
        })).collect::<Vec<_>>(),
    })
}

pub fn mmodel_bytes(m: &MModel) -> Vec<u8> {
    let mut out = MAGIC.to_vec();
    out.extend(bincode::encode_to_vec(m, bincode::config::standard()).unwrap());
    out
}

/// Decodes a serialised model (as written by the real code) into the mirror struct.
pub fn mmodel_decode(data: &[u8]) -> Option<MModel> {
    if data.len() < MAGIC.len() || &data[..MAGIC.len()] != MAGIC {
        return None;
    }
    bincode::decode_from_slice::<MModel, _>(&data[MAGIC.len()..], bincode::config::standard())
        .ok()
        .map(|x| x.0)
}

pub fn model_from_json(m: &Value) -> Result<Model, String> {
    let b = mmodel_bytes(&mmodel_from_json(m));
    match catch_unwind(|| Model::read_slice(&b).map(|x| x.0)) {
        Ok(Ok(m)) => Ok(m),
        Ok(Err(e)) => Err(format!("err:{e}")),
        Err(_) => Err("panic".into()),
    }
}

/// pred spec: {"model": <model json>, "tags": bool, "store": bool, "serde": bool, "trail": [bytes]}
/// With "serde" the predictor is serialised, `trail` is appended, and the predictor obtained by
/// deserialising those bytes is returned (C14); the status then says whether the returned rest
/// equals `trail`.
pub fn predictor_from_json(p: &Value) -> Result<Predictor, String> {
    predictor_from_json_rest(p).map(|x| x.0)
}

/// As above; also returns the bytes that deserialisation reported as following the predictor.
pub fn predictor_from_json_rest(p: &Value) -> Result<(Predictor, Value), String> {
    let model = model_from_json(&p["model"])?;
    let tags = p["tags"].as_bool().unwrap_or(false);
    #[cfg(not(feature = "tag-prediction"))]
    let tags = {
        let _ = tags;
        false
    };
    let store = p["store"].as_bool().unwrap_or(false);
    let serde = p["serde"].as_bool().unwrap_or(false);
    match catch_unwind(AssertUnwindSafe(|| Predictor::new(model, tags))) {
        Ok(Ok(pr)) => {
            let mut pr = pr;
            let mut rest_out = Value::Null;
            if serde {
                let trail = bytes(&p["trail"]);
                let r = catch_unwind(AssertUnwindSafe(|| {
                    let mut data = pr.serialize_to_vec().map_err(|e| format!("err:{e}"))?;
                    let n = data.len();
                    data.extend_from_slice(&trail);
                    let _ = n;
                    let (p2, rest) = unsafe { Predictor::deserialize_from_slice_unchecked(&data) }
                        .map_err(|e| format!("err:{e}"))?;
                    Ok::<_, String>((p2, json!(rest)))
                }));
                pr = match r {
                    Ok(Ok((p2, rest))) => {
                        rest_out = rest;
                        p2
                    }
                    Ok(Err(e)) => return Err(e),
                    Err(_) => return Err("panic".into()),
                };
            }
            #[cfg(feature = "tag-prediction")]
            if store {
                pr.store_tag_scores(true);
            }
            let _ = store;
            Ok((pr, rest_out))
        }
        Ok(Err(e)) => Err(format!("err:{e}")),
        Err(_) => Err("panic".into()),
    }
}

// ---------------------------------------------------------------------------------------------
// projection

pub fn label(b: CharacterBoundary) -> u8 {
    b as u8
}

pub fn label_from(v: u64) -> CharacterBoundary {
    match v {
        0 => CharacterBoundary::NotWordBoundary,
        1 => CharacterBoundary::WordBoundary,
        _ => CharacterBoundary::Unknown,
    }
}

fn guarded<F: FnOnce() -> Value>(f: F) -> Value {
    match catch_unwind(AssertUnwindSafe(f)) {
        Ok(v) => v,
        Err(_) => json!("panic"),
    }
}

fn tag_value(t: &Option<std::borrow::Cow<str>>) -> Value {
    match t {
        Some(s) => str_to_cps(s),
        None => json!([]),
    }
}

pub struct ProjOpts {
    pub writers: bool,
    pub reparse: bool,
    pub cands: bool,
}

impl Default for ProjOpts {
    fn default() -> Self {
        Self {
            writers: true,
            reparse: false,
            cands: false,
        }
    }
}

/// The basic state of a sentence (no iterator, no writers).
pub fn proj_state(s: &Sentence) -> Value {
    let n = s.char_types().len();
    let ntags = s.n_tags();
    let tagslen = s.tags().len();
    let tags = if ntags.checked_mul(n) == Some(tagslen) {
        let mut rows = vec![];
        for i in 0..n {
            let row: Vec<Value> = s.tags()[i * ntags..(i + 1) * ntags]
                .iter()
                .map(tag_value)
                .collect();
            rows.push(Value::Array(row));
        }
        Value::Array(rows)
    } else {
        Value::Null
    };
    json!({
        "text": str_to_cps(s.as_raw_text()),
        "types": s.char_types(),
        "bnd": s.boundaries().iter().map(|&b| label(b)).collect::<Vec<_>>(),
        "ntags": ntags,
        "tagslen": tagslen,
        "tags": tags,
        "scores": guarded(|| json!(s.boundary_scores())),
    })
}

pub fn proj_tokens(s: &Sentence, cands: bool) -> Value {
    let _ = cands;
    guarded(|| {
        let limit = s.char_types().len() + 2;
        let mut out = vec![];
        for (k, t) in s.iter_tokens().enumerate() {
            if k >= limit {
                out.push(json!("overrun"));
                break;
            }
            let surface = guarded(|| str_to_cps(t.surface()));
            let tags = guarded(|| Value::Array(t.tags().iter().map(tag_value).collect()));
            let mut o = json!({"s": t.start(), "e": t.end(), "surf": surface, "tags": tags});
            #[cfg(feature = "tag-prediction")]
            if cands {
                o["cands"] = guarded(|| {
                    Value::Array(
                        t.tag_candidates()
                            .iter()
                            .map(|c| {
                                Value::Array(
                                    c.iter()
                                        .map(|(tag, sc)| json!({"t": str_to_cps(tag), "s": sc}))
                                        .collect(),
                                )
                            })
                            .collect(),
                    )
                });
            }
            out.push(o);
        }
        Value::Array(out)
    })
}

fn reparse_lite(res: vaporetto::errors::Result<Sentence>) -> Value {
    match res {
        Ok(s) => {
            let mut v = proj_state(&s);
            v["res"] = json!("ok");
            v
        }
        Err(_) => json!({"res": "err"}),
    }
}

pub fn proj(s: &Sentence, o: &ProjOpts) -> Value {
    let mut v = guarded(|| proj_state(s));
    if v == json!("panic") {
        return v;
    }
    v["tokens"] = proj_tokens(s, o.cands);
    if o.writers {
        let wt = catch_unwind(AssertUnwindSafe(|| {
            let mut buf = String::from("junk");
            s.write_tokenized_text(&mut buf);
            buf
        }));
        let wp = catch_unwind(AssertUnwindSafe(|| {
            let mut buf = String::from("junk");
            s.write_partial_annotation_text(&mut buf);
            buf
        }));
        match &wt {
            Ok(b) => {
                v["wtok_utf8"] = json!(std::str::from_utf8(b.as_bytes()).is_ok());
                v["wtok"] = str_to_cps(&String::from_utf8_lossy(b.as_bytes()));
                if o.reparse {
                    v["rtok"] = guarded(|| reparse_lite(Sentence::from_tokenized(b)));
                    v["wtok2"] = guarded(|| match Sentence::from_tokenized(b) {
                        Ok(s2) => {
                            let mut b2 = String::new();
                            s2.write_tokenized_text(&mut b2);
                            str_to_cps(&b2)
                        }
                        Err(_) => json!("err"),
                    });
                }
            }
            Err(_) => v["wtok"] = json!("panic"),
        }
        match &wp {
            Ok(b) => {
                v["wpart_utf8"] = json!(std::str::from_utf8(b.as_bytes()).is_ok());
                v["wpart"] = str_to_cps(&String::from_utf8_lossy(b.as_bytes()));
                if o.reparse {
                    v["rpart"] = guarded(|| reparse_lite(Sentence::from_partial_annotation(b)));
                    v["wpart2"] = guarded(|| match Sentence::from_partial_annotation(b) {
                        Ok(s2) => {
                            let mut b2 = String::new();
                            s2.write_partial_annotation_text(&mut b2);
                            str_to_cps(&b2)
                        }
                        Err(_) => json!("err"),
                    });
                }
            }
            Err(_) => v["wpart"] = json!("panic"),
        }
    }
    v
}

/// Builds an arbitrary sentence without going through the tokenized/partial parsers:
/// spec: {"text":[cp], "bnd":[0/1/2], "ntags":k, "tags":[[tag..]..] (rows per character)}
pub fn build_sentence<'a, 'b>(sp: &Value) -> Sentence<'a, 'b> {
    let text = cps_to_string(&sp["text"]);
    let mut s = Sentence::from_raw(text).expect("build_sentence: raw text rejected");
    if let Some(b) = sp.get("bnd").and_then(|x| x.as_array()) {
        for (dst, src) in s.boundaries_mut().iter_mut().zip(b) {
            *dst = label_from(src.as_u64().unwrap());
        }
    }
    let ntags = sp.get("ntags").and_then(|x| x.as_u64()).unwrap_or(0) as usize;
    s.reset_tags(ntags);
    if ntags > 0 {
        if let Some(rows) = sp.get("tags").and_then(|x| x.as_array()) {
            for (i, row) in rows.iter().enumerate() {
                for (j, t) in row.as_array().unwrap().iter().enumerate() {
                    let ts = cps_to_string(t);
                    if !ts.is_empty() {
                        s.tags_mut()[i * ntags + j] = Some(ts.into());
                    }
                }
            }
        }
    }
    s
}
