// Drivers for C16: the full-width normaliser (every Unicode scalar value) and the Tantivy adapter.
use std::io::Write;
use std::panic::{catch_unwind, AssertUnwindSafe};

use rand::rngs::StdRng;
use rand::seq::SliceRandom;
use rand::{Rng, SeedableRng};
use serde_json::{json, Value};
use tantivy::tokenizer::{TokenStream, Tokenizer};
use vaporetto::{Predictor, Sentence};
use vaporetto_rules::{string_filters::KyteaFullwidthFilter, SentenceFilter, StringFilter};
use vaporetto_tantivy::VaporettoTokenizer;

use crate::core::*;
use crate::record::{gen_model, rand_text, GenOpts, POOL};

fn stream_tokens(tk: &mut VaporettoTokenizer, text: &str) -> Value {
    let r = catch_unwind(AssertUnwindSafe(|| {
        let mut ts = tk.token_stream(text);
        let mut out = vec![];
        let mut guard = 0;
        while ts.advance() {
            let t = ts.token();
            out.push(json!({"text": str_to_cps(&t.text), "from": t.offset_from, "to": t.offset_to, "pos": t.position}));
            guard += 1;
            if guard > text.len() + 2 {
                out.push(json!("overrun"));
                break;
            }
        }
        Value::Array(out)
    }));
    r.unwrap_or(json!("panic"))
}

/// The core pipeline through the library: normalise, predict, line-break filter, configured filters.
fn lib_pipeline(pred: &Predictor, text: &str, wsconst: &str) -> Value {
    let r = catch_unwind(AssertUnwindSafe(|| {
        let norm = KyteaFullwidthFilter.filter(text);
        let mut s = Sentence::from_raw(norm).map_err(|_| ())?;
        pred.predict(&mut s);
        crate::ops::make_filter("L", None).filter(&mut s);
        for c in wsconst.chars() {
            crate::ops::make_filter(&c.to_string(), None).filter(&mut s);
        }
        Ok::<_, ()>(json!(s.boundaries().iter().map(|&b| b as u8).collect::<Vec<_>>()))
    }));
    match r {
        Ok(Ok(v)) => v,
        Ok(Err(())) => json!("err"),
        Err(_) => json!("panic"),
    }
}

/// case kind "tantivy": {"model":…, "wsconst":"DG", "texts":[[cp]…]}
pub fn run_case(case: &Value) -> Value {
    let ws = case["wsconst"].as_str().unwrap_or("").to_string();
    let model = match model_from_json(&case["model"]) {
        Ok(m) => m,
        Err(e) => return json!({"id": case["id"], "res": e}),
    };
    let tk = catch_unwind(AssertUnwindSafe(|| VaporettoTokenizer::new(model, &ws)));
    let mut tk = match tk {
        Ok(Ok(t)) => t,
        Ok(Err(_)) => return json!({"id": case["id"], "res": "err"}),
        Err(_) => return json!({"id": case["id"], "res": "panic"}),
    };
    // the same tokenizer restored from a serialised predictor (VaporettoTokenizer::deserialize_unchecked)
    let mut tk2: Option<VaporettoTokenizer> = match model_from_json(&case["model"]) {
        Ok(m2) => catch_unwind(AssertUnwindSafe(|| {
            let p = Predictor::new(m2, false).ok()?;
            let data = p.serialize_to_vec().ok()?;
            let (t, rest) = unsafe { VaporettoTokenizer::deserialize_unchecked(&data, &ws) }.ok()?;
            if rest.is_empty() {
                Some(t)
            } else {
                None
            }
        }))
        .unwrap_or(None),
        Err(_) => None,
    };
    let mut runs = vec![];
    for t in case["texts"].as_array().cloned().unwrap_or_default() {
        let text = cps_to_string(&t);
        let a = stream_tokens(&mut tk, &text);
        let b = match tk2.as_mut() {
            Some(t2) => stream_tokens(t2, &text),
            None => json!("no-deserialized-tokenizer"),
        };
        runs.push(json!({"tokens": a, "tokens_deserialized": b}));
    }
    json!({"id": case["id"], "res": "ok", "runs": runs})
}

/// record normalise <n_strings> <seed> <out>
pub fn record_normalise(n: usize, seed: u64, out: &mut dyn Write) {
    let f = KyteaFullwidthFilter;
    let mut pairs = vec![];
    let mut scanned = 0u32;
    for cp in 0..=0x10FFFFu32 {
        if let Some(c) = char::from_u32(cp) {
            scanned += 1;
            let o: String = f.filter(c.to_string());
            let oc: Vec<char> = o.chars().collect();
            if oc.len() != 1 || oc[0] != c {
                pairs.push(json!({"c": cp, "out": str_to_cps(&o)}));
            }
        }
    }
    let dom: Vec<char> = pairs.iter().map(|p| char::from_u32(p["c"].as_u64().unwrap() as u32).unwrap()).collect();
    let ran: Vec<char> = pairs.iter().flat_map(|p| cps_to_string(&p["out"]).chars().collect::<Vec<_>>()).collect();
    writeln!(out, "{}", json!({"id": 0, "ev": "table", "scanned": scanned, "pairs": pairs})).unwrap();
    // strings over domain ∪ range ∪ untouched characters
    let mut pool: Vec<char> = dom.clone();
    pool.extend(ran.iter());
    pool.extend(POOL.iter());
    let mut rng = StdRng::seed_from_u64(seed);
    let mut id = 1;
    let mut emit = |s: String, out: &mut dyn Write| {
        let o1: String = f.filter(&s);
        let o2: String = f.filter(&o1);
        writeln!(out, "{}", json!({"id": id, "ev": "str", "s": str_to_cps(&s), "out": str_to_cps(&o1), "out2": str_to_cps(&o2)})).unwrap();
        id += 1;
    };
    emit(String::new(), out);
    // every pair of table characters with one untouched character between them (position preservation)
    for (i, &a) in dom.iter().enumerate() {
        let b = dom[(i * 7 + 3) % dom.len()];
        emit(format!("{a}あ{b}"), out);
        emit(format!("{}{a}", ran[i % ran.len()]), out);
    }
    for _ in 0..n {
        let t = rand_text(&mut rng, &pool, 0, 12);
        emit(t, out);
    }
}

/// record tantivy <n_models> <seed> <out>: random models, wsconst strings and texts; each event carries the
/// adapter's token stream and the label vector of the library pipeline on the same text.
pub fn record_tantivy(n: usize, seed: u64, out: &mut dyn Write) {
    let mut rng = StdRng::seed_from_u64(seed);
    let letters = ['D', 'R', 'H', 'T', 'K', 'O', 'G'];
    let mut id = 0;
    for _ in 0..n {
        let (mm, mut alpha) = gen_model(&mut rng, &GenOpts { with_tags: false, max_w: 5 });
        // half of the runs use texts without any ASCII character; non-ASCII sources of the normaliser table
        // (whose normal forms ー 。 、 may be n-grams of the model) are mixed in
        let ascii_free = rng.gen_bool(0.5);
        if ascii_free {
            alpha.retain(|c| !c.is_ascii());
            if alpha.is_empty() {
                alpha.push('あ');
            }
        }
        for c in ['a', '1', '\r', '\n', '-', 'A'] {
            if !ascii_free && rng.gen_bool(0.3) {
                alpha.push(c);
            }
        }
        for c in ['－', '―', '｡', '､', '～', '｢'] {
            if rng.gen_bool(0.35) {
                alpha.push(c);
            }
        }
        let mj = mmodel_to_json(&mm);
        let nws = rng.gen_range(0..=3);
        let ws: String = (0..nws).map(|_| *letters.choose(&mut rng).unwrap()).collect();
        let (Ok(m1), Ok(m2)) = (model_from_json(&mj), model_from_json(&mj)) else { continue };
        let (Ok(mut tk), Ok(pred)) = (VaporettoTokenizer::new(m1, &ws), Predictor::new(m2, false)) else {
            writeln!(out, "{}", json!({"id": id, "ev": "panic", "what": "tokenizer construction"})).unwrap();
            id += 1;
            continue;
        };
        for _ in 0..4 {
            let text = rand_text(&mut rng, &alpha, 0, 14);
            let toks = stream_tokens(&mut tk, &text);
            let lib = if text.is_empty() { json!([]) } else { lib_pipeline(&pred, &text, &ws) };
            let ok = toks.is_array() && lib.is_array() && toks.as_array().unwrap().iter().all(|t| t.is_object());
            writeln!(out, "{}", json!({"id": id, "ev": "tantivy", "ok": ok, "text": str_to_cps(&text), "wsconst": ws,
                                       "tokens": if ok { toks } else { json!([]) }, "lib": if ok { lib } else { json!([]) }})).unwrap();
            id += 1;
        }
    }
}
