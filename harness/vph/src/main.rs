// vph — conformance harness between the TLA+ specification in /verif/spec and /repo.
//   vph replay <cases.ndjson> <out.ndjson> [start]   S->I: run TLC-generated cases, print observations
//   vph record <kind> <n> <seed> <out.ndjson> [...]  I->S: random drivers recording trace events
mod core;
mod ops;
#[cfg(feature = "full")]
mod files;
#[cfg(feature = "full")]
mod tantivy_drv;
#[cfg(feature = "full")]
mod train;
#[cfg(feature = "full")]
mod kytea_drv;
#[cfg(feature = "full")]
mod cli_util;
#[cfg(feature = "full")]
mod record;

use std::fs::{File, OpenOptions};
use std::io::{BufRead, BufReader, Seek, SeekFrom, Write};

use serde_json::{json, Value};

fn quiet_panics() {
    std::panic::set_hook(Box::new(|_| {}));
}

fn run_case(case: &Value) -> Value {
    let kind = case["kind"].as_str().unwrap_or("history");
    match kind {
        "history" => ops::run_history(case),
        "dictedit" => ops::run_dictedit(case),
        "pipeline" => ops::run_pipeline(case),
        #[cfg(feature = "full")]
        "tantivy" => tantivy_drv::run_case(case),
        #[cfg(feature = "full")]
        "train" => train::run_case(case),
        #[cfg(feature = "full")]
        "kytea" => kytea_drv::run_case(case),
        _ => json!({"id": case["id"], "error": format!("unknown kind {kind}")}),
    }
}

fn replay(args: &[String]) {
    let inp = &args[0];
    let outp = &args[1];
    let start: usize = args.get(2).map(|x| x.parse().unwrap()).unwrap_or(0);
    let rdr = BufReader::new(File::open(inp).expect("open cases"));
    let mut out = OpenOptions::new()
        .create(true)
        .append(true)
        .open(outp)
        .expect("open out");
    let mut prog = OpenOptions::new()
        .create(true)
        .write(true)
        .truncate(true)
        .open(format!("{outp}.progress"))
        .expect("open progress");
    for (i, line) in rdr.lines().enumerate() {
        if i < start {
            continue;
        }
        let line = line.unwrap();
        if line.trim().is_empty() {
            continue;
        }
        prog.seek(SeekFrom::Start(0)).unwrap();
        write!(prog, "{i:<12}").unwrap();
        let case: Value = serde_json::from_str(&line).expect("case json");
        let res = match std::panic::catch_unwind(|| run_case(&case)) {
            Ok(v) => v,
            Err(_) => json!({"id": case["id"], "harness_panic": true}),
        };
        let mut s = serde_json::to_string(&res).unwrap();
        s.push('\n');
        out.write_all(s.as_bytes()).unwrap();
    }
    prog.seek(SeekFrom::Start(0)).unwrap();
    write!(prog, "{:<12}", "done").unwrap();
}

fn main() {
    quiet_panics();
    let args: Vec<String> = std::env::args().collect();
    if args.len() < 2 {
        eprintln!("usage: vph replay|record ...");
        std::process::exit(2);
    }
    match args[1].as_str() {
        "replay" => replay(&args[2..]),
        "canon" => {
            // canon <models.ndjson> <out.ndjson>: every build must re-serialise a model file to the identical bytes
            let inp = std::fs::read_to_string(&args[2]).expect("models");
            let mut out = std::io::BufWriter::new(File::create(&args[3]).expect("out"));
            for (i, line) in inp.lines().enumerate() {
                if line.trim().is_empty() {
                    continue;
                }
                let v: Value = serde_json::from_str(line).unwrap();
                let bytes = core::mmodel_bytes(&core::mmodel_from_json(&v["model"]));
                let r = std::panic::catch_unwind(|| vaporetto::Model::read_slice(&bytes).map(|(m, rest)| (m.to_vec(), rest.len())));
                let (oc, reser, rest) = match r {
                    Ok(Ok((Ok(b), rest))) => ("ok", json!(b), rest),
                    Ok(Ok((Err(_), rest))) => ("writeerr", json!([-1]), rest),
                    Ok(Err(_)) => ("err", json!([-1]), 0),
                    Err(_) => ("panic", json!([-1]), 0),
                };
                writeln!(out, "{}", json!({"id": i, "ev": "file", "file": format!("gen{i}"), "op": "canon", "len": bytes.len(),
                                          "outcome": oc, "bytes": bytes, "reser": reser, "restlen": rest})).unwrap();
            }
            out.flush().unwrap();
        }
        #[cfg(feature = "full")]
        "files" => files::run(&args[2..]),
        #[cfg(feature = "full")]
        "mkmodel" => cli_util::mkmodel(&args[2..]),
        #[cfg(feature = "full")]
        "unzstd" => cli_util::unzstd(&args[2..]),
        #[cfg(feature = "full")]
        "decode" => cli_util::decode(&args[2..]),
        #[cfg(feature = "full")]
        "record" => {
            let kind = args[2].as_str();
            let n: usize = args[3].parse().unwrap();
            let seed: u64 = args[4].parse().unwrap();
            let mut out = std::io::BufWriter::new(File::create(&args[5]).expect("create out"));
            match kind {
                "score" | "tags" => record::record_predict(kind, n, seed, &mut out),
                "sentences" => record::record_sentences(n, seed, &mut out),
                "histories" => record::record_histories(n, seed, &mut out),
                "serde" => record::record_serde(n, seed, &mut out),
                "gencases" => record::record_gencases(n, seed, &mut out),
                "normalise" => tantivy_drv::record_normalise(n, seed, &mut out),
                "tantivy" => tantivy_drv::record_tantivy(n, seed, &mut out),
                _ => {
                    eprintln!("unknown record kind");
                    std::process::exit(2);
                }
            }
            out.flush().unwrap();
        }
        _ => {
            eprintln!("unknown subcommand");
            std::process::exit(2);
        }
    }
}
