// I->S drivers: run the real code on seeded random inputs and record trace events
// (action, arguments, projected result) for validation by the TLA+ trace specifications.
use std::collections::BTreeSet;
use std::io::Write;
use std::panic::{catch_unwind, AssertUnwindSafe};

use rand::rngs::StdRng;
use rand::seq::SliceRandom;
use rand::{Rng, SeedableRng};
use serde_json::{json, Value};
use vaporetto::{CharacterBoundary, Predictor, Sentence};

use crate::core::*;

// characters of every type and every UTF-8 length, all inside long-established ranges
pub const POOL: &[char] = &[
    'a', 'b', 'Z', '0', '7', 'あ', 'い', 'ん', 'ア', 'ン', 'ー', '漢', '字', '人', '。', '、', ' ', '/', '\\', '-',
    '§', 'é', '😀', '👍', '𠮷', 'Ａ', '５', 'ｱ', '\u{301}', '\n',
];

pub fn rand_text(rng: &mut StdRng, alpha: &[char], lo: usize, hi: usize) -> String {
    let n = rng.gen_range(lo..=hi);
    (0..n).map(|_| *alpha.choose(rng).unwrap()).collect()
}

fn rand_weight(rng: &mut StdRng) -> i32 {
    match rng.gen_range(0..10) {
        0 => 32767,
        1 => -32768,
        2 => 0,
        3 => 1,
        4 => -1,
        _ => rng.gen_range(-2000..2000),
    }
}

fn substr(rng: &mut StdRng, base: &[char], lo: usize, hi: usize) -> String {
    let len = rng.gen_range(lo..=hi.min(base.len()).max(lo));
    let len = len.min(base.len());
    let st = rng.gen_range(0..=base.len() - len);
    base[st..st + len].iter().collect()
}

pub struct GenOpts {
    pub with_tags: bool,
    pub max_w: u8,
}

pub fn gen_model(rng: &mut StdRng, o: &GenOpts) -> (MModel, Vec<char>) {
    let na = rng.gen_range(2..=4);
    let mut alpha: Vec<char> = POOL.choose_multiple(rng, na).cloned().collect();
    if alpha.iter().all(|c| *c == ' ') {
        alpha.push('a');
    }
    let ws = [1u8, 2, 3, 3, 4, 5, 8, 9, 12];
    let pick_w = |rng: &mut StdRng| -> u8 {
        let w = *ws.choose(rng).unwrap();
        w.min(o.max_w)
    };
    let cw = pick_w(rng);
    let tw = pick_w(rng);
    let base: Vec<char> = rand_text(rng, &alpha, 30, 30).chars().collect();
    let base_types: Vec<u8> = base
        .iter()
        .map(|&c| vaporetto::CharacterType::get_type(c) as u8)
        .collect();
    // character n-grams (unique), with suffix chains
    let mut cset = BTreeSet::new();
    for _ in 0..rng.gen_range(0..10) {
        let g = substr(rng, &base, 1, (2 * cw as usize).min(5));
        if rng.gen_bool(0.4) {
            let cs: Vec<char> = g.chars().collect();
            for k in 1..cs.len() {
                cset.insert(cs[k..].iter().collect::<String>());
            }
        }
        cset.insert(g);
    }
    let cng: Vec<MNgram<String>> = cset
        .into_iter()
        .map(|g| {
            let l = g.chars().count();
            MNgram {
                weights: (0..(2 * cw as usize - l + 1)).map(|_| rand_weight(rng)).collect(),
                ngram: g,
            }
        })
        .collect();
    let mut tset = BTreeSet::new();
    for _ in 0..rng.gen_range(0..8) {
        let len = rng.gen_range(1..=(2 * tw as usize).min(4));
        let st = rng.gen_range(0..=base_types.len() - len);
        let g = base_types[st..st + len].to_vec();
        if rng.gen_bool(0.4) {
            for k in 1..g.len() {
                tset.insert(g[k..].to_vec());
            }
        }
        tset.insert(g);
    }
    let tng: Vec<MNgram<Vec<u8>>> = tset
        .into_iter()
        .map(|g| MNgram {
            weights: (0..(2 * tw as usize - g.len() + 1)).map(|_| rand_weight(rng)).collect(),
            ngram: g,
        })
        .collect();
    let mut dset = BTreeSet::new();
    for _ in 0..rng.gen_range(0..6) {
        let hi = if rng.gen_bool(0.15) { 14 } else { 5 };
        dset.insert(substr(rng, &base, 1, hi));
    }
    let dict: Vec<MWord> = dset
        .into_iter()
        .map(|w| {
            let l = w.chars().count();
            MWord {
                weights: (0..l + 1).map(|_| rand_weight(rng)).collect(),
                word: w,
                comment: String::new(),
            }
        })
        .collect();
    let mut tags = vec![];
    if o.with_tags {
        let mut tokens = BTreeSet::new();
        for _ in 0..rng.gen_range(0..4) {
            tokens.insert(substr(rng, &base, 1, 3));
        }
        let names = ["A", "B", "名", "x/y", "Q q"];
        for token in tokens {
            let ncat = rng.gen_range(0..=3);
            let mut cats = vec![];
            let mut ncls = 0;
            for _ in 0..ncat {
                let nc = rng.gen_range(0..=3);
                let c: Vec<String> = names.choose_multiple(rng, nc).map(|s| s.to_string()).collect();
                if c.len() >= 2 {
                    ncls += c.len();
                }
                cats.push(c);
            }
            let mut tw_vec = |rng: &mut StdRng| -> Vec<i32> {
                (0..ncls)
                    .map(|_| if rng.gen_bool(0.2) { 0 } else { rng.gen_range(-50..50) })
                    .collect()
            };
            let mut cmap: std::collections::BTreeMap<String, BTreeSet<u8>> = Default::default();
            for _ in 0..rng.gen_range(0..6) {
                let g = if rng.gen_bool(0.5) {
                    // n-grams that cover the token are the ones the trainer would produce
                    let extra = substr(rng, &base, 0, 2);
                    format!("{token}{extra}")
                } else {
                    substr(rng, &base, 1, 4)
                };
                let rel = rng.gen_range(0..=cw.min(3));
                cmap.entry(g).or_default().insert(rel);
            }
            let tcng: Vec<MTagNgram<String>> = cmap
                .into_iter()
                .map(|(g, rels)| MTagNgram {
                    ngram: g,
                    weights: rels
                        .into_iter()
                        .map(|rel| MTagWeight {
                            rel,
                            weights: tw_vec(rng),
                        })
                        .collect(),
                })
                .collect();
            let mut tmap: std::collections::BTreeMap<Vec<u8>, BTreeSet<u8>> = Default::default();
            for _ in 0..rng.gen_range(0..4) {
                let len = rng.gen_range(1..=3usize);
                let st = rng.gen_range(0..=base_types.len() - len);
                let rel = rng.gen_range(0..=tw.min(3));
                tmap.entry(base_types[st..st + len].to_vec()).or_default().insert(rel);
            }
            let ttng: Vec<MTagNgram<Vec<u8>>> = tmap
                .into_iter()
                .map(|(g, rels)| MTagNgram {
                    ngram: g,
                    weights: rels
                        .into_iter()
                        .map(|rel| MTagWeight {
                            rel,
                            weights: tw_vec(rng),
                        })
                        .collect(),
                })
                .collect();
            let bias = tw_vec(rng);
            tags.push(MTagModel {
                token,
                tags: cats,
                cng: tcng,
                tng: ttng,
                bias,
            });
        }
    }
    (
        MModel {
            cng,
            tng,
            dict,
            bias: rng.gen_range(-300..300),
            cw,
            tw,
            tags,
        },
        alpha,
    )
}

fn bnd_json(s: &Sentence) -> Value {
    json!(s.boundaries().iter().map(|&b| b as u8).collect::<Vec<_>>())
}

/// record score|tags <n_models> <seed> <out>
pub fn record_predict(kind: &str, n_models: usize, seed: u64, out: &mut dyn Write) {
    let mut rng = StdRng::seed_from_u64(seed);
    let with_tags = kind == "tags";
    let mut id = 0u64;
    for _ in 0..n_models {
        let (mm, alpha) = gen_model(
            &mut rng,
            &GenOpts {
                with_tags,
                max_w: 12,
            },
        );
        let mj = mmodel_to_json(&mm);
        let pred = match predictor_from_json(&json!({"model": mj, "tags": with_tags, "store": with_tags})) {
            Ok(p) => p,
            Err(e) => {
                writeln!(out, "{}", json!({"id": id, "ev": "newpred", "model": mj, "res": e})).unwrap();
                id += 1;
                continue;
            }
        };
        let mut s = Sentence::default();
        for _ in 0..3 {
            let text = loop {
                let t = rand_text(&mut rng, &alpha, 1, 24);
                if !t.contains('\0') {
                    break t;
                }
            };
            let r = catch_unwind(AssertUnwindSafe(|| {
                s.update_raw(text.clone()).unwrap();
                pred.predict(&mut s);
            }));
            if r.is_err() {
                writeln!(out, "{}", json!({"id": id, "ev": "panic", "what": "predict", "model": mj, "text": str_to_cps(&text)})).unwrap();
                id += 1;
                s = Sentence::default();
                continue;
            }
            if !with_tags {
                writeln!(
                    out,
                    "{}",
                    json!({"id": id, "ev": "predict", "model": mj, "text": str_to_cps(&text),
                           "scores": s.boundary_scores(), "bnd": bnd_json(&s)})
                )
                .unwrap();
                id += 1;
                continue;
            }
            let mode = if rng.gen_bool(0.4) { "set" } else { "pred" };
            let scores = s.boundary_scores().to_vec();
            let pbnd = bnd_json(&s);
            if mode == "set" {
                for b in s.boundaries_mut().iter_mut() {
                    *b = match rng.gen_range(0..5) {
                        0 | 1 => CharacterBoundary::WordBoundary,
                        2 => CharacterBoundary::Unknown,
                        _ => CharacterBoundary::NotWordBoundary,
                    };
                }
            }
            let r = catch_unwind(AssertUnwindSafe(|| s.fill_tags()));
            if r.is_err() {
                writeln!(out, "{}", json!({"id": id, "ev": "panic", "what": "fill_tags", "model": mj, "text": str_to_cps(&text), "bnd": bnd_json(&s)})).unwrap();
                id += 1;
                s = Sentence::default();
                continue;
            }
            let st = proj_state(&s);
            let toks = proj_tokens(&s, true);
            let cands: Value = match toks.as_array() {
                Some(a) => Value::Array(a.iter().map(|t| t["cands"].clone()).collect()),
                None => json!("panic"),
            };
            let cands_ok = cands.as_array().map(|a| a.iter().all(|c| c.is_array())).unwrap_or(false);
            writeln!(
                out,
                "{}",
                json!({"id": id, "ev": "tags", "model": mj, "text": str_to_cps(&text), "mode": mode,
                       "scores": scores, "pbnd": pbnd, "bnd": st["bnd"], "ntags": st["ntags"],
                       "tags": if st["tags"].is_array() { st["tags"].clone() } else { json!([]) }, "tags_ok": st["tags"].is_array(),
                       "cands_ok": cands_ok, "cands": if cands_ok { cands } else { json!([]) }})
            )
            .unwrap();
            id += 1;
        }
    }
}

#[allow(dead_code)]
pub fn unused(_: &Predictor) {}
