// I->S drivers: run the real code on seeded random inputs and record trace events
// (action, arguments, projected result) for validation by the TLA+ trace specifications.
use std::collections::BTreeSet;
use std::io::Write;
use std::panic::{catch_unwind, AssertUnwindSafe};

use rand::rngs::StdRng;
use rand::seq::SliceRandom;
use rand::{Rng, SeedableRng};
use serde_json::{json, Value};
use vaporetto::{CharacterBoundary, Predictor, Sentence};

use crate::core::*;

// characters of every type and every UTF-8 length, all inside long-established ranges
pub const POOL: &[char] = &[
    'a', 'b', 'Z', '0', '7', 'あ', 'い', 'ん', 'ア', 'ン', 'ー', '漢', '字', '人', '。', '、', ' ', '/', '\\', '-',
    '§', 'é', '😀', '👍', '𠮷', 'Ａ', '５', 'ｱ', '\u{301}', '\n',
];

pub fn rand_text(rng: &mut StdRng, alpha: &[char], lo: usize, hi: usize) -> String {
    let n = rng.gen_range(lo..=hi);
    (0..n).map(|_| *alpha.choose(rng).unwrap()).collect()
}

fn rand_weight(rng: &mut StdRng) -> i32 {
    match rng.gen_range(0..10) {
        0 => 32767,
        1 => -32768,
        2 => 0,
        3 => 1,
        4 => -1,
        _ => rng.gen_range(-2000..2000),
    }
}

fn substr(rng: &mut StdRng, base: &[char], lo: usize, hi: usize) -> String {
    let len = rng.gen_range(lo..=hi.min(base.len()).max(lo));
    let len = len.min(base.len());
    let st = rng.gen_range(0..=base.len() - len);
    base[st..st + len].iter().collect()
}

pub struct GenOpts {
    pub with_tags: bool,
    pub max_w: u8,
}

thread_local! {
    /// when set, gen_model builds a LARGE model (hundreds of entries over a wider alphabet)
    pub static BIG: std::cell::Cell<bool> = std::cell::Cell::new(false);
}

pub fn gen_model(rng: &mut StdRng, o: &GenOpts) -> (MModel, Vec<char>) {
    let big = BIG.with(|b| b.get());
    let na = if big { rng.gen_range(5..=8) } else { rng.gen_range(2..=4) };
    let mut alpha: Vec<char> = POOL.choose_multiple(rng, na).cloned().collect();
    if alpha.iter().all(|c| *c == ' ') {
        alpha.push('a');
    }
    let ws = [1u8, 2, 3, 3, 4, 5, 8, 9, 12];
    let pick_w = |rng: &mut StdRng| -> u8 {
        let w = *ws.choose(rng).unwrap();
        w.min(o.max_w)
    };
    let cw = pick_w(rng);
    let tw = pick_w(rng);
    let blen = if big { 400 } else { 30 };
    let base: Vec<char> = rand_text(rng, &alpha, blen, blen).chars().collect();
    let base_types: Vec<u8> = base
        .iter()
        .map(|&c| vaporetto::CharacterType::get_type(c) as u8)
        .collect();
    // character n-grams (unique), with suffix chains
    let mut cset = BTreeSet::new();
    for _ in 0..(if big { rng.gen_range(150..400) } else { rng.gen_range(0..10) }) {
        let g = substr(rng, &base, 1, (2 * cw as usize).min(5));
        if rng.gen_bool(0.4) {
            let cs: Vec<char> = g.chars().collect();
            for k in 1..cs.len() {
                cset.insert(cs[k..].iter().collect::<String>());
            }
        }
        cset.insert(g);
    }
    let cng: Vec<MNgram<String>> = cset
        .into_iter()
        .map(|g| {
            let l = g.chars().count();
            MNgram {
                weights: (0..(2 * cw as usize - l + 1)).map(|_| rand_weight(rng)).collect(),
                ngram: g,
            }
        })
        .collect();
    let mut tset = BTreeSet::new();
    for _ in 0..(if big { rng.gen_range(20..80) } else { rng.gen_range(0..8) }) {
        let len = rng.gen_range(1..=(2 * tw as usize).min(4));
        let st = rng.gen_range(0..=base_types.len() - len);
        let g = base_types[st..st + len].to_vec();
        if rng.gen_bool(0.4) {
            for k in 1..g.len() {
                tset.insert(g[k..].to_vec());
            }
        }
        tset.insert(g);
    }
    let tng: Vec<MNgram<Vec<u8>>> = tset
        .into_iter()
        .map(|g| MNgram {
            weights: (0..(2 * tw as usize - g.len() + 1)).map(|_| rand_weight(rng)).collect(),
            ngram: g,
        })
        .collect();
    let mut dset = BTreeSet::new();
    for _ in 0..(if big { rng.gen_range(50..300) } else { rng.gen_range(0..6) }) {
        let hi = if rng.gen_bool(0.15) { 14 } else { 5 };
        dset.insert(substr(rng, &base, 1, hi));
    }
    let dict: Vec<MWord> = dset
        .into_iter()
        .map(|w| {
            let l = w.chars().count();
            MWord {
                weights: (0..l + 1).map(|_| rand_weight(rng)).collect(),
                word: w,
                comment: String::new(),
            }
        })
        .collect();
    let mut tags = vec![];
    if o.with_tags {
        let mut tokens = BTreeSet::new();
        for _ in 0..rng.gen_range(0..4) {
            tokens.insert(substr(rng, &base, 1, 3));
        }
        let names = ["A", "B", "名", "x/y", "Q q", "C", "D", "E"];
        for token in tokens {
            let ncat = rng.gen_range(0..=3);
            let mut cats = vec![];
            let mut ncls = 0;
            for _ in 0..ncat {
                let nc = if rng.gen_bool(0.15) { rng.gen_range(4..=6) } else { rng.gen_range(0..=3) };
                let c: Vec<String> = names.choose_multiple(rng, nc).map(|s| s.to_string()).collect();
                if c.len() >= 2 {
                    ncls += c.len();
                }
                cats.push(c);
            }
            let mut tw_vec = |rng: &mut StdRng| -> Vec<i32> {
                (0..ncls)
                    .map(|_| if rng.gen_bool(0.2) { 0 } else { rng.gen_range(-50..50) })
                    .collect()
            };
            let mut cmap: std::collections::BTreeMap<String, BTreeSet<u8>> = Default::default();
            for _ in 0..rng.gen_range(0..6) {
                let g = if rng.gen_bool(0.5) {
                    // n-grams that cover the token are the ones the trainer would produce
                    let extra = substr(rng, &base, 0, 2);
                    format!("{token}{extra}")
                } else {
                    substr(rng, &base, 1, 4)
                };
                let rel = rng.gen_range(0..=cw.min(3));
                cmap.entry(g).or_default().insert(rel);
            }
            let tcng: Vec<MTagNgram<String>> = cmap
                .into_iter()
                .map(|(g, rels)| MTagNgram {
                    ngram: g,
                    weights: rels
                        .into_iter()
                        .map(|rel| MTagWeight {
                            rel,
                            weights: tw_vec(rng),
                        })
                        .collect(),
                })
                .collect();
            let mut tmap: std::collections::BTreeMap<Vec<u8>, BTreeSet<u8>> = Default::default();
            for _ in 0..rng.gen_range(0..4) {
                let len = rng.gen_range(1..=3usize);
                let st = rng.gen_range(0..=base_types.len() - len);
                let rel = rng.gen_range(0..=tw.min(3));
                tmap.entry(base_types[st..st + len].to_vec()).or_default().insert(rel);
            }
            let ttng: Vec<MTagNgram<Vec<u8>>> = tmap
                .into_iter()
                .map(|(g, rels)| MTagNgram {
                    ngram: g,
                    weights: rels
                        .into_iter()
                        .map(|rel| MTagWeight {
                            rel,
                            weights: tw_vec(rng),
                        })
                        .collect(),
                })
                .collect();
            let mut bias = tw_vec(rng);
            if rng.gen_bool(0.3) {
                // classifiers whose trailing classes have a zero bias
                let keep = rng.gen_range(0..=bias.len());
                for b in bias.iter_mut().skip(keep) {
                    *b = 0;
                }
            }
            tags.push(MTagModel {
                token,
                tags: cats,
                cng: tcng,
                tng: ttng,
                bias,
            });
        }
    }
    // the order of tag models in the file must not matter
    tags.shuffle(rng);
    (
        MModel {
            cng,
            tng,
            dict,
            bias: rng.gen_range(-300..300),
            cw,
            tw,
            tags,
        },
        alpha,
    )
}

fn bnd_json(s: &Sentence) -> Value {
    json!(s.boundaries().iter().map(|&b| b as u8).collect::<Vec<_>>())
}

/// record score|tags <n_models> <seed> <out>
pub fn record_predict(kind: &str, n_models: usize, seed: u64, out: &mut dyn Write) {
    let mut rng = StdRng::seed_from_u64(seed);
    let with_tags = kind == "tags";
    let mut id = 0u64;
    for mi in 0..n_models {
        // every 40th model is large: hundreds of n-grams and words (automaton with many states, long suffix chains)
        BIG.with(|b| b.set(mi % 40 == 39));
        let (mm, alpha) = gen_model(
            &mut rng,
            &GenOpts {
                with_tags,
                max_w: 12,
            },
        );
        BIG.with(|b| b.set(false));
        let mj = mmodel_to_json(&mm);
        let pred = match predictor_from_json(&json!({"model": mj, "tags": with_tags, "store": with_tags})) {
            Ok(p) => p,
            Err(e) => {
                writeln!(out, "{}", json!({"id": id, "ev": "newpred", "model": mj, "res": e})).unwrap();
                id += 1;
                continue;
            }
        };
        let mut s = Sentence::default();
        // recurring lengths: a reused sentence often sees a new text of exactly the previous length
        let lens = [rng.gen_range(1..=24usize), rng.gen_range(2..=8usize)];
        for round in 0..(if with_tags { 6 } else { 3 }) {
            let text = loop {
                let l = if round % 3 == 2 { rng.gen_range(1..=24) } else { lens[rng.gen_range(0..2)] };
                let t = rand_text(&mut rng, &alpha, l, l);
                if !t.contains('\0') {
                    break t;
                }
            };
            let r = catch_unwind(AssertUnwindSafe(|| {
                s.update_raw(text.clone()).unwrap();
                pred.predict(&mut s);
            }));
            if r.is_err() {
                writeln!(out, "{}", json!({"id": id, "ev": "panic", "what": "predict", "model": mj, "text": str_to_cps(&text)})).unwrap();
                id += 1;
                s = Sentence::default();
                continue;
            }
            if !with_tags {
                writeln!(
                    out,
                    "{}",
                    json!({"id": id, "ev": "predict", "model": mj, "text": str_to_cps(&text),
                           "scores": s.boundary_scores(), "bnd": bnd_json(&s)})
                )
                .unwrap();
                id += 1;
                continue;
            }
            let mode = if rng.gen_bool(0.4) { "set" } else { "pred" };
            let scores = s.boundary_scores().to_vec();
            let pbnd = bnd_json(&s);
            if mode == "set" {
                for b in s.boundaries_mut().iter_mut() {
                    *b = match rng.gen_range(0..5) {
                        0 | 1 => CharacterBoundary::WordBoundary,
                        2 => CharacterBoundary::Unknown,
                        _ => CharacterBoundary::NotWordBoundary,
                    };
                }
            }
            let r = catch_unwind(AssertUnwindSafe(|| s.fill_tags()));
            if r.is_err() {
                writeln!(out, "{}", json!({"id": id, "ev": "panic", "what": "fill_tags", "model": mj, "text": str_to_cps(&text), "bnd": bnd_json(&s)})).unwrap();
                id += 1;
                s = Sentence::default();
                continue;
            }
            let st = proj_state(&s);
            let toks = proj_tokens(&s, true);
            let cands: Value = match toks.as_array() {
                Some(a) => Value::Array(a.iter().map(|t| t["cands"].clone()).collect()),
                None => json!("panic"),
            };
            let cands_ok = cands.as_array().map(|a| a.iter().all(|c| c.is_array())).unwrap_or(false);
            writeln!(
                out,
                "{}",
                json!({"id": id, "ev": "tags", "model": mj, "text": str_to_cps(&text), "mode": mode,
                       "scores": scores, "pbnd": pbnd, "bnd": st["bnd"], "ntags": st["ntags"],
                       "tags": if st["tags"].is_array() { st["tags"].clone() } else { json!([]) }, "tags_ok": st["tags"].is_array(),
                       "cands_ok": cands_ok, "cands": if cands_ok { cands } else { json!([]) }})
            )
            .unwrap();
            id += 1;
        }
    }
}

#[allow(dead_code)]
pub fn unused(_: &Predictor) {}

/// record sentences <n> <seed> <out>: random sentences (built without the parsers) written by both
/// writers and re-read by the real readers; events `roundtok` (sentences without unknown labels) and
/// `roundpart` for Trace_Writers.
pub fn record_sentences(n: usize, seed: u64, out: &mut dyn Write) {
    let mut rng = StdRng::seed_from_u64(seed);
    let extra: Vec<char> = vec!['\t', '\u{3000}', '\u{a0}', '|', '_', ':', ',', '"', '\'', '\r', '\u{2028}', '\u{85}', '\u{b}', '\u{c}', '\u{1680}', '\u{feff}'];
    let mut pool: Vec<char> = POOL.to_vec();
    pool.extend_from_slice(&extra);
    for id in 0..n {
        let na = rng.gen_range(2..=6);
        let alpha: Vec<char> = pool.choose_multiple(&mut rng, na).cloned().collect();
        let text = rand_text(&mut rng, &alpha, 1, 8);
        let nchars = text.chars().count();
        let with_u = id % 2 == 1;
        let bnd: Vec<u8> = (0..nchars - 1)
            .map(|_| if with_u { rng.gen_range(0..3) } else { rng.gen_range(0..2) })
            .collect();
        let ntags = rng.gen_range(0..=3usize);
        let mut rows = vec![];
        for _ in 0..nchars {
            let mut row = vec![];
            for _ in 0..ntags {
                if rng.gen_bool(0.5) {
                    row.push(json!([]));
                } else {
                    let t = rand_text(&mut rng, &pool, 1, 4);
                    row.push(str_to_cps(&t));
                }
            }
            rows.push(Value::Array(row));
        }
        let sent = json!({"text": str_to_cps(&text), "bnd": bnd, "ntags": ntags, "tags": rows});
        let r = catch_unwind(AssertUnwindSafe(|| {
            let s = build_sentence(&sent);
            proj(&s, &ProjOpts { writers: true, reparse: true, cands: false })
        }));
        let p = match r {
            Ok(p) if p.is_object() => p,
            _ => {
                writeln!(out, "{}", json!({"id": id, "ev": "panic", "sent": sent})).unwrap();
                continue;
            }
        };
        if !with_u {
            if p["wtok"].is_array() && p["rtok"].is_object() {
                writeln!(out, "{}", json!({"id": id * 2, "ev": "roundtok", "sent": sent, "wtok": p["wtok"], "wtok_utf8": p["wtok_utf8"], "rtok": p["rtok"]})).unwrap();
            } else {
                writeln!(out, "{}", json!({"id": id * 2, "ev": "panic", "what": "tokenized writer/reader", "sent": sent})).unwrap();
            }
        }
        if p["wpart"].is_array() && p["rpart"].is_object() {
            writeln!(out, "{}", json!({"id": id * 2 + 1, "ev": "roundpart", "sent": sent, "wpart": p["wpart"], "wpart_utf8": p["wpart_utf8"], "rpart": p["rpart"]})).unwrap();
        } else {
            writeln!(out, "{}", json!({"id": id * 2 + 1, "ev": "panic", "what": "partial writer/reader", "sent": sent})).unwrap();
        }
    }
}

fn esc(s: &str, specials: &[char]) -> String {
    let mut o = String::new();
    for c in s.chars() {
        if specials.contains(&c) {
            o.push('\\');
        }
        o.push(c);
    }
    o
}

fn obs_of(s: &Sentence) -> Value {
    let st = proj_state(s);
    let toks = proj_tokens(s, false);
    let ok = st["tags"].is_array() && toks.is_array() && st["scores"].is_array()
        && toks.as_array().map(|a| a.iter().all(|t| t.is_object() && t["surf"].is_array() && t["tags"].is_array())).unwrap_or(false);
    // the two writers, each into a dirty buffer
    let line = |f: &dyn Fn(&mut String)| {
        let r = catch_unwind(AssertUnwindSafe(|| {
            let mut b = String::from("junk");
            f(&mut b);
            b
        }));
        match r {
            Ok(b) if std::str::from_utf8(b.as_bytes()).is_ok() => Some(str_to_cps(&b)),
            _ => None,
        }
    };
    let wtok = line(&|b| s.write_tokenized_text(b));
    let wpart = line(&|b| s.write_partial_annotation_text(b));
    if ok && wtok.is_some() && wpart.is_some() {
        json!({"sane": true, "text": st["text"], "types": st["types"], "bnd": st["bnd"], "ntags": st["ntags"],
               "tags": st["tags"], "scores": st["scores"], "tokens": toks, "wtok": wtok.unwrap(), "wpart": wpart.unwrap()})
    } else {
        json!({"sane": false, "text": st["text"], "types": st["types"], "bnd": st["bnd"], "ntags": st["ntags"],
               "tags": [], "scores": [], "tokens": [], "wtok": [], "wpart": [],
               "raw": {"state": st, "tokens": toks, "wtok_ok": wtok.is_some(), "wpart_ok": wpart.is_some()}})
    }
}

/// record histories <n_histories> <seed> <out>: random call histories on ONE sentence object over random
/// predictors; every call is logged with the observable state after it (Trace_Lifecycle validates).
pub fn record_histories(n: usize, seed: u64, out: &mut dyn Write) {
    let mut rng = StdRng::seed_from_u64(seed);
    let mut id = 0u64;
    for _ in 0..n {
        // predictors over one alphabet
        let (m1, alpha) = gen_model(&mut rng, &GenOpts { with_tags: true, max_w: 4 });
        let mut models = vec![m1.clone()];
        for _ in 0..2 {
            // further models over the same alphabet: regenerate until the alphabets agree (cheap: reuse base entries)
            let wt = rng.gen_bool(0.7);
            let (mut m, _) = gen_model(&mut rng, &GenOpts { with_tags: wt, max_w: 4 });
            // re-target the entries to the shared alphabet by keeping windows/bias but borrowing n-grams
            m.cng = m1.cng.iter().cloned().filter(|_| rng.gen_bool(0.6)).collect();
            for e in m.cng.iter_mut() {
                let l = e.ngram.chars().count();
                e.weights = (0..(2 * m.cw as usize + 1).saturating_sub(l)).map(|_| rand_weight(&mut rng)).collect();
            }
            m.cng.retain(|e| !e.weights.is_empty() && e.ngram.chars().count() <= 2 * m.cw as usize);
            m.tng = m1.tng.iter().cloned().filter(|_| rng.gen_bool(0.6)).collect();
            for e in m.tng.iter_mut() {
                e.weights = (0..(2 * m.tw as usize + 1).saturating_sub(e.ngram.len())).map(|_| rand_weight(&mut rng)).collect();
            }
            m.tng.retain(|e| !e.weights.is_empty() && e.ngram.len() <= 2 * m.tw as usize);
            m.dict = m1.dict.iter().cloned().filter(|_| rng.gen_bool(0.5)).collect();
            if !m.tags.is_empty() {
                // tag models over the shared alphabet: take m1's, with rel clipped to the new windows
                m.tags = m1.tags.clone();
                for t in m.tags.iter_mut() {
                    for e in t.cng.iter_mut() {
                        e.weights.retain(|w| w.rel <= m.cw);
                    }
                    t.cng.retain(|e| !e.weights.is_empty());
                    for e in t.tng.iter_mut() {
                        e.weights.retain(|w| w.rel <= m.tw);
                    }
                    t.tng.retain(|e| !e.weights.is_empty());
                }
            }
            models.push(m);
        }
        let mut pspecs = vec![];
        for (i, m) in models.iter().enumerate() {
            let has_tags = !m.tags.is_empty() || i == 0;
            pspecs.push(json!({"model": mmodel_to_json(m), "tags": has_tags, "store": i == 0}));
        }
        // the first model twice: once storing scores, once not
        pspecs.push(json!({"model": mmodel_to_json(&models[0]), "tags": true, "store": false}));
        let mut preds = vec![];
        let mut okp = true;
        for p in &pspecs {
            match predictor_from_json(p) {
                Ok(x) => preds.push(x),
                Err(e) => {
                    writeln!(out, "{}", json!({"id": id, "ev": "newpred", "res": e, "pred": p})).unwrap();
                    id += 1;
                    okp = false;
                    break;
                }
            }
        }
        if !okp {
            continue;
        }
        writeln!(out, "{}", json!({"id": id, "ev": "hist_init", "preds": pspecs})).unwrap();
        id += 1;
        let mut s = Sentence::default();
        let lens = [rng.gen_range(1..=6usize), rng.gen_range(1..=6usize)];
        let tagpool = ["X", "Y", "名", "a b", "p/q"];
        let nops = rng.gen_range(12..=30);
        for _ in 0..nops {
            let len = if rng.gen_bool(0.7) { lens[rng.gen_range(0..2)] } else { rng.gen_range(1..=8) };
            let op: Value = match rng.gen_range(0..100) {
                0..=24 => {
                    let t = if rng.gen_bool(0.06) {
                        String::new()
                    } else if rng.gen_bool(0.25) {
                        // a text with exactly the BYTE length of the current one but the other kind of characters
                        // (single-byte after multi-byte and vice versa): per-byte tables of the old text must not survive
                        let cur = s.as_raw_text().to_string();
                        let nb = cur.len();
                        let pool: Vec<char> = if cur.is_ascii() {
                            alpha.iter().cloned().filter(|c| c.len_utf8() == 3).collect()
                        } else {
                            alpha.iter().cloned().filter(|c| c.is_ascii()).collect()
                        };
                        if pool.is_empty() || nb == 0 || (cur.is_ascii() && nb % 3 != 0) {
                            rand_text(&mut rng, &alpha, len, len)
                        } else if cur.is_ascii() {
                            rand_text(&mut rng, &pool, nb / 3, nb / 3)
                        } else {
                            rand_text(&mut rng, &pool, nb, nb)
                        }
                    } else {
                        rand_text(&mut rng, &alpha, len, len)
                    };
                    json!({"op": "up_raw", "s": str_to_cps(&t)})
                }
                25..=34 => {
                    // a tokenized line: tokens with optional tags, specials escaped as documented
                    let t = rand_text(&mut rng, &alpha, len, len);
                    let cs: Vec<char> = t.chars().collect();
                    let mut line = String::new();
                    let nt = rng.gen_range(0..=2);
                    for (i, c) in cs.iter().enumerate() {
                        line.push_str(&esc(&c.to_string(), &[' ', '/', '\\']));
                        let last = i + 1 == cs.len();
                        if last || rng.gen_bool(0.4) {
                            for _ in 0..nt {
                                line.push('/');
                                if rng.gen_bool(0.7) {
                                    line.push_str(&esc(tagpool[rng.gen_range(0..tagpool.len())], &[' ', '/', '\\']));
                                }
                            }
                            if !last {
                                line.push(' ');
                            }
                        }
                    }
                    if rng.gen_bool(0.08) {
                        line.push(' ');
                    }
                    json!({"op": "up_tok", "s": str_to_cps(&line)})
                }
                35..=42 => {
                    let t = rand_text(&mut rng, &alpha, len, len);
                    let cs: Vec<char> = t.chars().collect();
                    let mut line = String::new();
                    let nt = rng.gen_range(0..=2);
                    for (i, c) in cs.iter().enumerate() {
                        line.push(*c);
                        if rng.gen_bool(0.5) {
                            for _ in 0..nt {
                                line.push('/');
                                if rng.gen_bool(0.7) {
                                    line.push_str(&esc(tagpool[rng.gen_range(0..tagpool.len())], &[' ', '/', '\\', '-', '|']));
                                }
                            }
                        }
                        if i + 1 != cs.len() {
                            line.push([' ', '-', '|'][rng.gen_range(0..3)]);
                        }
                    }
                    if rng.gen_bool(0.08) {
                        line.push('-');
                    }
                    json!({"op": "up_part", "s": str_to_cps(&line)})
                }
                43..=47 => json!({"op": "reset_tags", "k": rng.gen_range(0..=3)}),
                48..=74 => json!({"op": "predict", "p": rng.gen_range(0..preds.len())}),
                75..=86 => json!({"op": "fill_tags"}),
                87..=92 => {
                    let v: Vec<u8> = (0..8).map(|_| rng.gen_range(0..3)).collect();
                    json!({"op": "set_bnd", "v": v})
                }
                _ => {
                    let f = ["D", "R", "H", "T", "K", "O", "L"][rng.gen_range(0..7)];
                    json!({"op": "filter", "f": f})
                }
            };
            let name = op["op"].as_str().unwrap().to_string();
            let text = cps_to_string(&op["s"]);
            let r = catch_unwind(AssertUnwindSafe(|| match name.as_str() {
                "up_raw" => {
                    // owned or borrowed text (decided by the text itself, so that the run stays a function of the seed)
                    let ok = if text.len() % 2 == 0 {
                        let b: &'static str = Box::leak(text.clone().into_boxed_str());
                        s.update_raw(b).is_ok()
                    } else {
                        s.update_raw(text.clone()).is_ok()
                    };
                    if ok { "ok" } else { "err" }
                }
                "up_tok" => if s.update_tokenized(&text).is_ok() { "ok" } else { "err" },
                "up_part" => if s.update_partial_annotation(&text).is_ok() { "ok" } else { "err" },
                "reset_tags" => { s.reset_tags(op["k"].as_u64().unwrap() as usize); "ok" }
                "predict" => { preds[op["p"].as_u64().unwrap() as usize].predict(&mut s); "ok" }
                "fill_tags" => { s.fill_tags(); "ok" }
                "set_bnd" => {
                    for (d, x) in s.boundaries_mut().iter_mut().zip(op["v"].as_array().unwrap()) {
                        *d = label_from(x.as_u64().unwrap());
                    }
                    "ok"
                }
                _ => { crate::ops::make_filter(op["f"].as_str().unwrap(), None).filter(&mut s); "ok" }
            }));
            let res = match r { Ok(x) => x, Err(_) => "panic" };
            let obs = catch_unwind(AssertUnwindSafe(|| obs_of(&s))).unwrap_or(json!({"sane": false, "text": [], "types": [], "bnd": [], "ntags": 0, "tags": [], "scores": [], "tokens": [], "wtok": [], "wpart": []}));
            writeln!(out, "{}", json!({"id": id, "ev": "op", "op": op, "res": res, "obs": obs})).unwrap();
            id += 1;
        }
    }
}


/// record serde <n_models> <seed> <out>: for random models, the observations of the original predictor and of
/// the predictor obtained from serialize_to_vec -> deserialize_from_slice_unchecked(bytes ++ trailing).
pub fn record_serde(n_models: usize, seed: u64, out: &mut dyn Write) {
    let mut rng = StdRng::seed_from_u64(seed);
    for id in 0..n_models {
        let with_tags = id % 3 != 0;
        let (mm, alpha) = gen_model(&mut rng, &GenOpts { with_tags, max_w: 12 });
        let mj = mmodel_to_json(&mm);
        // predict_tags = true also for models without tag models
        let tags = id % 2 == 0 || with_tags;
        // trailing bytes: random, often starting with a small value (0, 1, 2 look like flags / lengths to a decoder)
        let mut trail: Vec<u8> = (0..rng.gen_range(0..6)).map(|_| rng.gen()).collect();
        if !trail.is_empty() && rng.gen_bool(0.5) {
            trail[0] = rng.gen_range(0..3);
        }
        let store = tags && id % 4 != 1;
        let a = predictor_from_json(&json!({"model": mj, "tags": tags, "store": store}));
        let b = predictor_from_json_rest(&json!({"model": mj, "tags": tags, "store": store, "serde": true, "trail": trail}));
        let (pa, pb, rest) = match (a, b) {
            (Ok(pa), Ok((pb, rest))) => (pa, pb, rest),
            (a, b) => {
                writeln!(out, "{}", json!({"id": id, "ev": "serde", "ok": false, "a": [], "b": [], "rest": [-1], "trail": trail,
                    "why": format!("{:?} / {:?}", a.err(), b.err().map(|e| e.to_string())), "model": mj})).unwrap();
                continue;
            }
        };
        let mut oa = vec![];
        let mut ob = vec![];
        let mut ok = true;
        let mut sa = Sentence::default();
        let mut sb = Sentence::default();
        for _ in 0..4 {
            let text = rand_text(&mut rng, &alpha, 1, 20);
            for (p, s, o) in [(&pa, &mut sa, &mut oa), (&pb, &mut sb, &mut ob)] {
                let r = catch_unwind(AssertUnwindSafe(|| {
                    s.update_raw(text.clone()).unwrap();
                    p.predict(s);
                    if tags {
                        s.fill_tags();
                    }
                    let st = proj_state(s);
                    let tk = proj_tokens(s, store && !mm.tags.is_empty() && mm.tags.iter().any(|t| !t.tags.is_empty()));
                    json!({"scores": st["scores"], "bnd": st["bnd"], "ntags": st["ntags"], "tags": st["tags"], "tokens": tk})
                }));
                match r {
                    Ok(v) => o.push(v),
                    Err(_) => {
                        ok = false;
                        o.push(json!("panic"));
                        *s = Sentence::default();
                    }
                }
            }
        }
        writeln!(out, "{}", json!({"id": id, "ev": "serde", "ok": ok, "a": oa, "b": ob, "rest": rest, "trail": trail, "model": mj})).unwrap();
    }
}


/// record gencases <n_models> <seed> <out>: random (model, texts) pairs as replayable history cases
/// (no observation): the same file is replayed under several builds / predictor variants.
pub fn record_gencases(n_models: usize, seed: u64, out: &mut dyn Write) {
    let mut rng = StdRng::seed_from_u64(seed);
    for id in 0..n_models {
        let with_tags = id % 2 == 0;
        let (mut mm, alpha) = gen_model(&mut rng, &GenOpts { with_tags, max_w: 12 });
        // some models with a window size of 0 (the trainer can produce them): the n-grams of that kind are dropped, the
        // dictionary and the tag n-grams stay.  Only relational checks (build vs build) use these cases.
        match id % 6 {
            4 => {
                mm.cw = 0;
                mm.cng.clear();
                if mm.dict.is_empty() {
                    let w: String = alpha.iter().take(2).collect();
                    let l = w.chars().count();
                    mm.dict.push(MWord { word: w, weights: (0..l + 1).map(|k| 500 - 300 * k as i32).collect(), comment: String::new() });
                }
            }
            5 => {
                mm.tw = 0;
                mm.tng.clear();
            }
            _ => {}
        }
        // every 7th case: bias 0 and no type n-grams, plus a long text of a character no entry contains - every score is
        // exactly 0 (the threshold) over more than eight consecutive boundaries
        let zero_case = id % 7 == 3;
        if zero_case {
            mm.bias = 0;
            mm.tng.clear();
        }
        let mj = mmodel_to_json(&mm);
        let mut ops = vec![];
        if zero_case {
            let t: String = std::iter::repeat('\u{2603}').take(rng.gen_range(10..=19)).collect();
            ops.push(json!({"op": "up_raw", "s": str_to_cps(&t)}));
            ops.push(json!({"op": "predict", "p": 0}));
        }
        let lens = [rng.gen_range(1..=3usize), rng.gen_range(2..=12usize)];
        for k in 0..5 {
            let l = if k == 4 { rng.gen_range(1..=20) } else { lens[k % 2] };
            let t = rand_text(&mut rng, &alpha, l, l);
            ops.push(json!({"op": "up_raw", "s": str_to_cps(&t)}));
            ops.push(json!({"op": "predict", "p": 0}));
            if with_tags {
                ops.push(json!({"op": "fill_tags", "cands": !mm.tags.is_empty() && mm.tags.iter().any(|t| !t.tags.is_empty())}));
            }
        }
        writeln!(out, "{}", json!({"id": id, "kind": "history", "preds": [{"model": mj, "tags": with_tags, "store": with_tags}],
                                   "ops": ops, "opts": {"writers": false}, "with_tags": with_tags})).unwrap();
    }
}
