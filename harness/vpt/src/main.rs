// vpt <n_threads> <iters_per_thread> <seed> <out.ndjson>
// N real threads share ONE Predictor (by reference); each thread owns its Sentence.  Every call is
// logged as begin(thread, text) / end(thread, observation) with a global atomic sequence number.
#[path = "../../vph/src/core.rs"]
mod core;
#[path = "../../vph/src/ops.rs"]
mod ops;
#[path = "../../vph/src/record.rs"]
mod record;

use std::io::Write;
use std::sync::atomic::{AtomicU64, Ordering};

use rand::rngs::StdRng;
use rand::{Rng, SeedableRng};
use serde_json::{json, Value};
use vaporetto::{Predictor, Sentence};

fn assert_send_sync<T: Send + Sync>() {}

/// predictors per run (each fresh, shared by all threads)
const ROUNDS: u64 = 10;

fn main() {
    std::panic::set_hook(Box::new(|_| {}));
    assert_send_sync::<Predictor>();
    let args: Vec<String> = std::env::args().collect();
    let n_threads: usize = args[1].parse().unwrap();
    let iters: usize = args[2].parse().unwrap();
    let seed: u64 = args[3].parse().unwrap();
    let mut out = std::io::BufWriter::new(std::fs::File::create(&args[4]).unwrap());
    let mut rng = StdRng::seed_from_u64(seed);
    let mut events: Vec<(u64, Value)> = vec![];
    let mut id = 0u64;
    // several predictors, one after the other; each shared by all threads
    for round in 0..ROUNDS {
        let (mm, alpha) = record::gen_model(
            &mut rng,
            &record::GenOpts {
                with_tags: true,
                max_w: 5,
            },
        );
        let mj = core::mmodel_to_json(&mm);
        let store = round % 2 == 0;
        // every third predictor is built WITHOUT tag prediction (other scorer variants: cached type scores, plain character
        // scorer); such a predictor is never asked to fill tags
        let with_tags = round % 3 != 1;
        let pred = match core::predictor_from_json(&json!({"model": mj, "tags": with_tags, "store": store && with_tags})) {
            Ok(p) => p,
            Err(e) => {
                writeln!(out, "{}", json!({"id": id, "ev": "newpred", "res": e, "model": mj})).unwrap();
                id += 1;
                continue;
            }
        };
        let seq = AtomicU64::new(0);
        // all threads make their FIRST call on the fresh predictor at the same moment (no warm-up prediction anywhere)
        let barrier = std::sync::Barrier::new(n_threads);
        let barrier_ref = &barrier;
        let pred_ref = &pred;
        let seq_ref = &seq;
        let alpha_ref = &alpha;
        let mut per_thread: Vec<Vec<(u64, Value)>> = vec![];
        std::thread::scope(|sc| {
            let mut hs = vec![];
            for t in 0..n_threads {
                let tseed = seed ^ (round << 32) ^ (t as u64 + 1).wrapping_mul(0x9e3779b97f4a7c15);
                hs.push(sc.spawn(move || {
                    let mut rng = StdRng::seed_from_u64(tseed);
                    let mut log = vec![];
                    let mut s = Sentence::default();
                    barrier_ref.wait();
                    for _ in 0..iters {
                        let text = record::rand_text(&mut rng, alpha_ref, 1, 16);
                        let fill = with_tags && rng.gen_bool(0.7);
                        let b = seq_ref.fetch_add(1, Ordering::SeqCst);
                        log.push((b, json!({"ev": "begin", "t": t, "text": core::str_to_cps(&text), "fill": fill})));
                        let r = std::panic::catch_unwind(std::panic::AssertUnwindSafe(|| {
                            s.update_raw(text.clone()).unwrap();
                            pred_ref.predict(&mut s);
                            if fill {
                                s.fill_tags();
                            }
                            core::proj_state(&s)
                        }));
                        let e = seq_ref.fetch_add(1, Ordering::SeqCst);
                        match r {
                            Ok(st) => log.push((
                                e,
                                json!({"ev": "end", "t": t, "ok": st["tags"].is_array(), "scores": st["scores"], "bnd": st["bnd"],
                                       "ntags": st["ntags"], "tags": if st["tags"].is_array() { st["tags"].clone() } else { json!([]) }}),
                            )),
                            Err(_) => {
                                log.push((e, json!({"ev": "end", "t": t, "ok": false, "scores": [], "bnd": [], "ntags": 0, "tags": []})));
                                s = Sentence::default();
                            }
                        }
                    }
                    log
                }));
            }
            for h in hs {
                per_thread.push(h.join().unwrap());
            }
        });
        events.push((0, json!({"ev": "init", "model": mj, "threads": n_threads})));
        let mut merged: Vec<(u64, Value)> = per_thread.into_iter().flatten().collect();
        merged.sort_by_key(|x| x.0);
        for (_, mut e) in events.drain(..).chain(merged.into_iter()) {
            e["id"] = json!(id);
            id += 1;
            writeln!(out, "{}", e).unwrap();
        }
    }
    out.flush().unwrap();
}
