------------------------------- MODULE Gen_Tags -------------------------------
(* Case generator (S->I) for C06: models with 0..2 tag models whose categories have 0..3       *)
(* candidates, every set of at most K tag n-gram entries (character or type n-gram, relative   *)
(* position 0..window) drawn from a pool that contains suffixes of each other and of the       *)
(* boundary n-grams; boundary part either empty (tag n-grams only) or small.  Expected tags,   *)
(* tag count and candidate scores by RefTagRows / RefTokenCands.                              *)
EXTENDS VpModel, Json
CONSTANTS Ws, Layouts1, Layouts2, BaseKinds, K, CPool, TPool, TextAlpha, MaxText, Tie, Swap
VARIABLES w, lay1, lay2, base, ents

TA == <<65>>  TB == <<66>>  TC == <<67>>  TD == <<68>>  TE == <<69>>  TF == <<70>>
TG == <<71>>  TH == <<72>>  TI == <<73>>  TJ == <<74>>
\* category layouts: number of candidates per category
Layout(i) == CASE i = 0 -> <<>>                                  \* tag model with zero categories
               [] i = 1 -> << <<TA>> >>                           \* one fixed tag
               [] i = 2 -> << <<TA, TB>> >>                       \* one trainable category
               [] i = 3 -> << <<TA, TB>>, <<TC>>, <<TD, TE, TF>> >>
               [] i = 4 -> << <<>>, <<TA, TB>> >>                 \* an empty category first
               [] i = 5 -> << <<TA, TB, TC, TD, TE, TF, TG, TH, TI, TJ>> >>      \* 10 classes: longer than the fixed 8-slot layout
               [] i = 6 -> << <<TA, TB, TC>>, <<TD, TE, TF>>, <<TG, TH, TI>> >>  \* 9 classes over three categories
               [] i = 9 -> <<>>                                   \* (marker: no second tag model)

Tok1 == <<97>>            \* a
Tok2 == <<12354, 97>>     \* あa

\* pools (indexed so that cfg files can select subsets)
CNg(i) == CASE i = 1 -> <<97>> [] i = 2 -> <<12354, 97>> [] i = 3 -> <<97, 97>> [] i = 4 -> <<97, 12354>>
            [] i = 5 -> <<12354>> [] i = 6 -> <<49, 97>>
TNg(i) == CASE i = 1 -> <<2>> [] i = 2 -> <<3, 2>> [] i = 3 -> <<2, 2>> [] i = 4 -> <<1>>

Entries == {[tm |-> t, kind |-> "c", ng |-> CNg(i), rel |-> r] : t \in {1, 2}, i \in CPool, r \in 0..2}
      \cup {[tm |-> t, kind |-> "t", ng |-> TNg(i), rel |-> r] : t \in {1, 2}, i \in TPool, r \in 0..2}

Init == /\ w \in Ws /\ lay1 \in Layouts1 /\ lay2 \in Layouts2 /\ base \in BaseKinds /\ ents = {}
Next == /\ Cardinality(ents) < K
        /\ \E e \in Entries \ ents :
              /\ e.rel <= w
              /\ (e.tm = 2 => lay2 # 9)
              /\ ents' = ents \cup {e}
        /\ UNCHANGED <<w, lay1, lay2, base>>

NCls(lay) == SumSeq([j \in 1..Len(Layout(lay)) |-> IF Len(Layout(lay)[j]) >= 2 THEN Len(Layout(lay)[j]) ELSE 0])
FPv(seed, n) == [c \in 1..n |-> IF Tie THEN 0 ELSE (IF (seed + c) % 3 = 0 THEN -1 ELSE 1) * (seed * 13 + c * 5 + 1)]

\* group the entry set into the model's nested layout: per tag model, per kind, per n-gram, per rel
EntSeq == SetToSeq(ents)
IdxOf(e) == CHOOSE i \in 1..Len(EntSeq) : EntSeq[i] = e
NgsOf(t, kd) == SetToSeq({e.ng : e \in {x \in ents : x.tm = t /\ x.kind = kd}})
RelsOf(t, kd, g) == SetToSeq({e \in ents : e.tm = t /\ e.kind = kd /\ e.ng = g})
TagNgs(t, kd, lay) ==
  [i \in 1..Len(NgsOf(t, kd)) |->
     [ng |-> NgsOf(t, kd)[i],
      tw |-> [j \in 1..Len(RelsOf(t, kd, NgsOf(t, kd)[i])) |->
                LET e == RelsOf(t, kd, NgsOf(t, kd)[i])[j] IN [rel |-> e.rel, w |-> FPv(IdxOf(e), NCls(lay))]]]]

TagModel(t, tok, lay) == [token |-> tok, cats |-> Layout(lay), cng |-> TagNgs(t, "c", lay), tng |-> TagNgs(t, "t", lay),
                          bias |-> FPv(40 + t, NCls(lay))]

\* boundary part: 0 = nothing (no boundary n-grams at all), 1 = character n-gram only,
\* 2 = type n-gram only, 3 = both plus a dictionary word
BaseC == <<[ng |-> <<97>>, w |-> [k \in 1..(2 * w) |-> IF k = w THEN 5 ELSE -2]]>>
BaseT == <<[ng |-> <<3>>, w |-> [k \in 1..(2 * w) |-> IF k = w + 1 THEN 4 ELSE -1]]>>
Model ==
  [bias |-> IF base = 0 THEN 1 ELSE 0, cw |-> w, tw |-> w,
   cng |-> IF base \in {1, 3} THEN BaseC ELSE <<>>,
   tng |-> IF base \in {2, 3} THEN BaseT ELSE <<>>,
   dict |-> IF base = 3 THEN <<[ng |-> <<12354, 97>>, w |-> <<3, -9, 2>>]>> ELSE <<>>,
   \* Swap: the tag models are stored in descending token order (the order must not matter)
   tags |-> IF lay2 = 9 THEN <<TagModel(1, Tok1, lay1)>>
            ELSE IF Swap THEN <<TagModel(2, Tok2, lay2), TagModel(1, Tok1, lay1)>>
            ELSE <<TagModel(1, Tok1, lay1), TagModel(2, Tok2, lay2)>>]

Texts == SeqsOf(TextAlpha, 1, MaxText)

TokensWithCands(m, text, st) ==
  LET toks == TokenRecords(st)  cs == RefTokenCands(m, text, st.bnd) IN
  [i \in 1..Len(toks) |-> [s |-> toks[i].s, e |-> toks[i].e, surf |-> toks[i].surf, tags |-> toks[i].tags, cands |-> cs[i]]]

Expect(m, text) ==
  LET r == RefPredict(m, text, TRUE) IN
  IF ModelNTags(m) = 0 THEN r ELSE [r EXCEPT !.tokens = TokensWithCands(m, text, r)]

\* a second fill_tags after the labels were edited by hand (W, U, N, W, ...): tags follow the CURRENT labels
Bnd2(text) == [i \in 1..(Len(text) - 1) |-> <<LW, LU, LN>>[((i - 1) % 3) + 1]]
Expect2(m, text) ==
  LET b2 == Bnd2(text)  k == ModelNTags(m)
      rows == IF k > 0 THEN RefTagRows(m, text, b2) ELSE [p \in 1..Len(text) |-> <<>>]
      st == [text |-> text, bnd |-> b2, ntags |-> k, tags |-> rows]
  IN [res |-> "ok", bnd |-> b2, ntags |-> k, tags |-> rows,
      tokens |-> IF k = 0 THEN TokenRecords(st) ELSE TokensWithCands(m, text, st)]
Case == LET m == Model  tx == SetToSeq(Texts) IN
        [model |-> m, nt |-> ModelNTags(m),
         runs |-> [i \in 1..Len(tx) |-> [text |-> tx[i], expect |-> Expect(m, tx[i]), bnd2 |-> Bnd2(tx[i]), expect2 |-> Expect2(m, tx[i])]]]
Emit == PrintT(<<"CASE", ToJson(Case)>>)
WF == WellFormed(Model)
=============================================================================
