---------------------------- MODULE Trace_Writers ----------------------------
(* I->S validation of the two writers (C02 writer clause, C03, C04).  Each event carries a   *)
(* sentence built without the parsers, the bytes the real writer produced for it and the      *)
(* projection of the real parser applied to those bytes.  The verdict is the relation the     *)
(* properties state, evaluated by TLC with the specification's definitions.                  *)
EXTENDS VpFormats, Json, IOUtils
CONSTANT Chains
Rec == ndJsonDeserialize(IOEnv.TRACE)
VARIABLES k, l
Init == k \in 1..Chains /\ l = k
Next == l + Chains <= Len(Rec) /\ l' = l + Chains /\ k' = k

HasU(s) == \E i \in 1..Len(s.bnd) : s.bnd[i] = LU

\* --- C02: the tokenized writer emits exactly the tokens (spec reader applied to the output)
WtokTokens(e) ==
  LET exp == TokenRecords(e.sent) IN
  IF Len(exp) = 0 THEN e.wtok = <<>>
  ELSE LET r == ParseTokenized(e.wtok)  got == IF r.res = "ok" THEN TokenRecords(r) ELSE <<>> IN
       /\ r.res = "ok"
       /\ Len(got) = Len(exp)
       /\ \A j \in 1..Len(exp) : got[j].surf = exp[j].surf /\ TrimRow(got[j].tags) = TrimRow(exp[j].tags)

\* --- C03: real reader o real writer = identity up to trailing absent tags (no unknown labels)
RoundTok(e) ==
  /\ e.wtok_utf8
  /\ e.rtok.res = "ok"
  /\ e.rtok.text = e.sent.text /\ e.rtok.bnd = e.sent.bnd
  /\ TokenTagsEquiv(e.sent, e.rtok)

\* --- C04: real partial reader o real partial writer = identity up to trailing absent tags
RoundPart(e) ==
  /\ e.wpart_utf8
  /\ e.rpart.res = "ok"
  /\ SentEquiv(e.sent, e.rpart)

\* --- C03, second clause: write o parse is idempotent on every string the parser accepts
\*     (w1 = write(parse(s)), w2 = write(parse(w1)), both by the real code)
IdemTok(e) == e.okw /\ e.w2 = e.w1
IdemPart(e) == e.okw /\ e.w2 = e.w1

Accept(e) ==
  CASE e.ev = "wtok" -> WtokTokens(e)
    [] e.ev = "idemtok" -> IdemTok(e)
    [] e.ev = "idempart" -> IdemPart(e)
    [] e.ev = "roundtok" -> RoundTok(e)
    [] e.ev = "roundpart" -> RoundPart(e)
    [] OTHER -> FALSE

\* diagnostics (never a verdict): does the specification's reader agree with the real one?
Diag(e) ==
  CASE e.ev = "roundtok" -> LET r == ParseTokenized(e.wtok) IN r.res = "ok" /\ r.text = e.sent.text /\ r.bnd = e.sent.bnd /\ TokenTagsEquiv(e.sent, r)
    [] e.ev = "roundpart" -> LET r == ParsePartial(e.wpart) IN r.res = "ok" /\ SentEquiv(e.sent, r)
    [] e.ev = "idemtok" -> LET a == ParseTokenized(e.s)  b == ParseTokenized(e.w1) IN
                           a.res = "ok" /\ b.res = "ok" /\ a.text = b.text /\ a.bnd = b.bnd /\ TokenTagsEquiv(a, b)
    [] e.ev = "idempart" -> LET a == ParsePartial(e.s)  b == ParsePartial(e.w1) IN
                           a.res = "ok" /\ b.res = "ok" /\ SentEquiv(a, b)
    [] OTHER -> TRUE

Check == l <= Len(Rec) =>
   /\ (Accept(Rec[l]) \/ PrintT(<<"REJECT", ToJson([l |-> l, id |-> Rec[l].id])>>))
   /\ (Diag(Rec[l]) \/ PrintT(<<"NOTE", ToJson([l |-> l, id |-> Rec[l].id])>>))
=============================================================================
