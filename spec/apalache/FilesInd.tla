------------------------------ MODULE FilesInd ------------------------------
(* Unbounded version of MC_Files for Apalache: the step-wise reader of a serialised model ends in   *)
(* exactly the outcome VpFiles demands, for EVERY file length L, truncation point, fault position     *)
(* and chunking (integers are unbounded here; TLC checks the same machine for L <= 6).               *)
(* Checked with an inductive invariant:                                                           *)
(*   apalache-mc check --init=Init    --inv=IndInv --length=0 FilesInd.tla     (Init => IndInv)       *)
(*   apalache-mc check --init=IndInit --inv=IndInv --length=1 FilesInd.tla     (IndInv /\ Next => IndInv') *)
(*   IndInv => Refines is checked as  --init=IndInit --inv=Refines --length=0                        *)
EXTENDS Integers

Hdr == 2

VARIABLES
  \* @type: Int;
  L,
  \* @type: Int;
  avail,
  \* @type: Int;
  fault,
  \* @type: Bool;
  hdrOk,
  \* @type: Int;
  pos,
  \* @type: Str;
  phase,
  \* @type: Str;
  out

NoFault == 1000000000

ReadOutcome == IF ~hdrOk THEN "err" ELSE IF fault < L THEN "err" ELSE IF avail < L THEN "err" ELSE "ok"

Init == /\ L \in Int /\ avail \in Int /\ fault \in Int
        /\ L > Hdr /\ avail >= 0 /\ fault >= 0
        /\ hdrOk \in BOOLEAN
        /\ pos = 0 /\ phase = "hdr" /\ out = "none"

Wanted == IF phase = "hdr" THEN Hdr - pos ELSE 1

Fail == /\ out = "none" /\ pos >= fault /\ out' = "err" /\ phase' = "done"
        /\ UNCHANGED <<L, avail, fault, hdrOk, pos>>
Eof == /\ out = "none" /\ pos < fault /\ pos >= avail /\ out' = "err" /\ phase' = "done"
       /\ UNCHANGED <<L, avail, fault, hdrOk, pos>>
ReadSome ==
  /\ out = "none" /\ pos < fault /\ pos < avail
  /\ \E k \in 1..Hdr :
       /\ k <= Wanted /\ pos + k <= avail /\ pos + k <= fault
       /\ pos' = pos + k
       /\ IF phase = "hdr" /\ pos + k >= Hdr
          THEN IF hdrOk THEN (phase' = "body" /\ out' = "none") ELSE (phase' = "done" /\ out' = "err")
          ELSE IF phase = "body" /\ pos + k >= L THEN (phase' = "done" /\ out' = "ok")
          ELSE (phase' = phase /\ out' = "none")
  /\ UNCHANGED <<L, avail, fault, hdrOk>>
Stutter == UNCHANGED <<L, avail, fault, hdrOk, pos, phase, out>>
Next == Fail \/ Eof \/ ReadSome \/ Stutter

IndInv ==
  /\ L > Hdr /\ avail >= 0 /\ fault >= 0 /\ pos >= 0
  /\ pos <= avail /\ pos <= fault
  /\ phase \in {"hdr", "body", "done"} /\ out \in {"none", "ok", "err"}
  /\ (out = "none" => \/ (phase = "hdr" /\ pos < Hdr)
                      \/ (phase = "body" /\ hdrOk /\ pos >= Hdr /\ pos < L))
  /\ (out # "none" => phase = "done")
  /\ (out = "ok" => hdrOk /\ pos = L)
  /\ (out = "err" => (~hdrOk \/ fault < L \/ avail < L))

\* an arbitrary state satisfying the invariant (for the inductive step)
IndInit ==
  /\ L \in Int /\ avail \in Int /\ fault \in Int /\ hdrOk \in BOOLEAN /\ pos \in Int
  /\ phase \in {"hdr", "body", "done"} /\ out \in {"none", "ok", "err"}
  /\ IndInv

\* what C07 needs from the reader: a finished run has the demanded outcome and never over-reads
Refines == (out # "none" => out = ReadOutcome) /\ (hdrOk => pos <= L)
=============================================================================
