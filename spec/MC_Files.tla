------------------------------- MODULE MC_Files -------------------------------
(* Design-level check for C07: for every file length, truncation point, fault position,         *)
(* chunking of the underlying reads and interrupt schedule, the step-wise reader ends in exactly  *)
(* the outcome the property demands; the slice reader never panics.                             *)
EXTENDS VpFiles, Integers
CONSTANTS MaxL, Hdr, MaxTrail, CheckLen
VARIABLES L, avail, fault, hdrOk, st, intr

Init == /\ L \in (Hdr + 1)..MaxL /\ avail \in 0..(MaxL + MaxTrail) /\ avail <= L + MaxTrail
        /\ fault \in (0..MaxL) \cup {NoFault} /\ hdrOk \in BOOLEAN
        /\ st = ReaderInit /\ intr = 0

\* the underlying reader: interrupted (retried), fails, reports EOF, or delivers 1..wanted units
Interrupted == st.out = "none" /\ intr < 2 /\ intr' = intr + 1 /\ UNCHANGED <<L, avail, fault, hdrOk, st>>
Fail == st.out = "none" /\ st.pos >= fault /\ st' = [st EXCEPT !.out = "err", !.phase = "done"]
        /\ UNCHANGED <<L, avail, fault, hdrOk, intr>>
Eof == st.out = "none" /\ st.pos < fault /\ st.pos >= avail /\ st' = [st EXCEPT !.out = "err", !.phase = "done"]
       /\ UNCHANGED <<L, avail, fault, hdrOk, intr>>
ReadSome == /\ st.out = "none" /\ st.pos < fault /\ st.pos < avail
            /\ \E k \in 1..Wanted(st, Hdr) :
                 /\ st.pos + k <= avail /\ st.pos + k <= fault
                 /\ st' = AfterDeliver(Deliver(st, k), Hdr, L, hdrOk)
            /\ UNCHANGED <<L, avail, fault, hdrOk, intr>>
Next == Interrupted \/ Fail \/ Eof \/ ReadSome

\* every finished run has the outcome of Layer R; no run ends in panic
ReaderRefines == st.out # "none" => st.out = ReadOutcome(L, avail, fault, hdrOk)
NeverPanic == st.out # "panic"
\* the reader never consumes trailing units
NoOverRead == st.pos <= L \/ ~hdrOk
\* slice reader
SliceOk == SliceRun(L, Hdr, avail, hdrOk, CheckLen) = SliceOutcome(L, avail, hdrOk)
\* progress: a run that has not finished can always take a step (no stuck reader)
NotStuck == st.out = "none" => (ENABLED Fail \/ ENABLED Eof \/ ENABLED ReadSome)
=============================================================================
