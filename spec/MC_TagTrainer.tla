----------------------------- MODULE MC_TagTrainer -----------------------------
(* Design-level check for C12 (score clause): how the tag trainer lays the per-category            *)
(* classifiers of one token out in a tag model.  Categories with at least two candidates are         *)
(* trained; their classes are laid out one after the other (class offset), categories with one        *)
(* candidate take no slot.  Every learned weight of feature (kind, n-gram, rel) for class c of         *)
(* category j goes to entry (n-gram, rel), slot ClassOffset(j) + c.  TLC checks that the reference      *)
(* tag scorer on that model computes, for every text and every occurrence of the token,                *)
(*     bias(j, c) + sum over the trainer's tag features of q(j, c, feature).                          *)
(* OffsetCountsFixed = TRUE is the mutant that also advances the offset for single-candidate            *)
(* categories.                                                                                     *)
EXTENDS VpTrainer
CONSTANTS Layouts, CNs, TNs, Alphabet, MaxText, OffsetCountsFixed
VARIABLES lay, cn, tn, phase

Tok == <<97>>
LayoutOf(i) == CASE i = 1 -> <<2>> [] i = 2 -> <<1, 2>> [] i = 3 -> <<2, 1, 3>> [] i = 4 -> <<0, 2>> [] i = 5 -> <<3, 2>>
Cand(j, c) == <<64 + 10 * j + c>>
Cats == [j \in 1..Len(LayoutOf(lay)) |-> [c \in 1..LayoutOf(lay)[j] |-> Cand(j, c)]]

Init == lay \in Layouts /\ cn \in CNs /\ tn \in TNs /\ phase = 0
Next == phase = 0 /\ phase' = 1 /\ UNCHANGED <<lay, cn, tn>>
Cfg == [cw |-> 3, cn |-> cn, tw |-> 3, tn |-> tn, dict |-> <<>>, dn |-> 1]

Texts == SeqsOf(Alphabet, 1, MaxText)
Occs(t) == {<<p - 1, p>> : p \in {i \in 1..Len(t) : t[i] = Tok[1]}}          \* occurrences of the one-character token
AllTagFeatures == UNION {UNION {TagFeatures(Cfg, t, o) : o \in Occs(t)} : t \in Texts}

H(s) == FoldLeft(LAMBDA a, c: (a * 31 + c) % 499, 5, s)
QT(j, c, f) == (IF (j + c) % 2 = 0 THEN 1 ELSE -1) * (H(f.ng) + 7 * f.rel + 100 * j + 3 * c + (IF f.k = "c" THEN 0 ELSE 50))
QB(j, c) == 11 * j - 4 * c

Trained(j) == Len(Cats[j]) >= 2
Off(j) == SumSeq([x \in 1..(j - 1) |-> IF OffsetCountsFixed THEN Len(Cats[x]) ELSE (IF Trained(x) THEN Len(Cats[x]) ELSE 0)])
NCls == SumSeq([x \in 1..Len(Cats) |-> IF Trained(x) THEN Len(Cats[x]) ELSE 0])
\* the vector stored for feature f: class weights of every trained category at its offset
Vec(f) == [s \in 1..NCls |->
             LET hit == {<<j, c>> \in (1..Len(Cats)) \X (1..3) : Trained(j) /\ c <= Len(Cats[j]) /\ Off(j) + c = s} IN
             IF hit = {} THEN 0 ELSE LET h == CHOOSE x \in hit : TRUE IN QT(h[1], h[2], f)]
BiasVec == [s \in 1..NCls |->
             LET hit == {<<j, c>> \in (1..Len(Cats)) \X (1..3) : Trained(j) /\ c <= Len(Cats[j]) /\ Off(j) + c = s} IN
             IF hit = {} THEN 0 ELSE LET h == CHOOSE x \in hit : TRUE IN QB(h[1], h[2])]
Entries(AF, kind) ==
  LET ngs == SetToSeq({f.ng : f \in {x \in AF : x.k = kind}}) IN
  [i \in 1..Len(ngs) |->
     [ng |-> ngs[i],
      tw |-> LET rels == SetToSeq({f.rel : f \in {x \in AF : x.k = kind /\ x.ng = ngs[i]}}) IN
             [r \in 1..Len(rels) |-> [rel |-> rels[r], w |-> Vec([k |-> kind, ng |-> ngs[i], rel |-> rels[r]])]]]]
TagModel(AF) == [token |-> Tok, cats |-> Cats, cng |-> Entries(AF, "c"), tng |-> Entries(AF, "t"), bias |-> BiasVec]

Learned(j, c, t, o) == LET fs == TagFeatures(Cfg, t, o) IN QB(j, c) + SumFun([f \in fs |-> QT(j, c, f)], fs)

ModelComputesClassifiers ==
  phase = 1 =>
    LET tm == TagModel(AllTagFeatures) IN
    \A t \in Texts : \A o \in Occs(t) :
      LET sc == RefTagScores(tm, t, o[2]) IN
      \A j \in 1..Len(Cats) : Trained(j) =>
         \A c \in 1..Len(Cats[j]) : sc[ClassOffset(tm, j) + c] = Learned(j, c, t, o)
VectorSizes == phase = 1 => Len(BiasVec) = NClasses(TagModel(AllTagFeatures))
=============================================================================
