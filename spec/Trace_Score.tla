----------------------------- MODULE Trace_Score -----------------------------
(* I->S validation of prediction (C01) and tag filling (C06): every event was recorded from    *)
(* the real Predictor on a seeded random model and text; TLC recomputes every boundary score,  *)
(* every label, every tag and every candidate score with the reference semantics.             *)
EXTENDS VpModel, Json, IOUtils
CONSTANT Chains
Rec == ndJsonDeserialize(IOEnv.TRACE)
VARIABLES k, l
Init == k \in 1..Chains /\ l = k
Next == l + Chains <= Len(Rec) /\ l' = l + Chains /\ k' = k

PredictOk(e) ==
  /\ WellFormed(e.model)
  /\ e.scores = RefScores(e.model, e.text)
  /\ e.bnd = RefLabels(e.model, e.text)

EmptyRows(n) == [p \in 1..n |-> <<>>]

TagsOk(e) ==
  LET m == e.model  nt == ModelNTags(m) IN
  /\ WellFormed(m)
  /\ e.scores = RefScores(m, e.text)
  /\ e.pbnd = RefLabels(m, e.text)
  /\ e.tags_ok
  /\ IF nt = 0 THEN e.ntags = 0 /\ e.tags = EmptyRows(Len(e.text))
     ELSE /\ e.ntags = nt
          /\ e.tags = RefTagRows(m, e.text, e.bnd)
          /\ e.cands_ok
          /\ e.cands = RefTokenCands(m, e.text, e.bnd)

Accept(e) ==
  CASE e.ev = "predict" -> PredictOk(e)
    [] e.ev = "tags" -> TagsOk(e)
    [] OTHER -> FALSE      \* "panic", "newpred" (a well-formed model was refused): never acceptable

Check == l <= Len(Rec) => (Accept(Rec[l]) \/ PrintT(<<"REJECT", ToJson([l |-> l, id |-> Rec[l].id])>>))
=============================================================================
