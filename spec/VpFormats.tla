------------------------------ MODULE VpFormats -----------------------------
(* The three annotation formats of a Sentence (properties C03, C04, C05).                    *)
(* Readers are written as folds of a reader state machine over the input characters, one     *)
(* transition per character, structured like the documented grammar:                         *)
(*   raw        any non-empty NUL-free text                                                  *)
(*   tokenized  tokens separated by one space; `\x` is the literal x; `/tag` after a token;   *)
(*              empty tags are absent tags                                                   *)
(*   partial    characters at odd positions, annotations `(/tag)* (space | - | |)` between    *)
(* A sentence value is [text, bnd, ntags, tags]: tags has one row per character, each row    *)
(* has ntags entries, the absent tag is <<>>.                                                *)
EXTENDS VpBase, VpTokens

Absent == <<>>

ErrResult == [res |-> "err"]

\* pad every row to the maximal row length with absent tags
PadRows(rows) ==
  LET k == IF Len(rows) = 0 THEN 0 ELSE Max({Len(rows[i]) : i \in 1..Len(rows)}) IN
  [i \in 1..Len(rows) |-> rows[i] \o [j \in 1..(k - Len(rows[i])) |-> Absent]]

NTagsOf(rows) == IF Len(rows) = 0 THEN 0 ELSE Max({Len(rows[i]) : i \in 1..Len(rows)})

OkResult(text, bnd, rows) ==
  [res |-> "ok", text |-> text, types |-> Types(text), bnd |-> bnd,
   ntags |-> NTagsOf(rows), tags |-> PadRows(rows)]

(* ---------------------------------------------------------------- raw *)
ParseRaw(s) ==
  IF Len(s) = 0 \/ \E i \in 1..Len(s) : s[i] = NUL THEN ErrResult
  ELSE OkResult(s, [i \in 1..(Len(s) - 1) |-> LU], [i \in 1..Len(s) |-> <<>>])

(* ---------------------------------------------------------------- tokenized *)
TokInit == [text |-> <<>>, bnd |-> <<>>, rows |-> <<>>, tag |-> <<>>, intag |-> FALSE,
            prevb |-> FALSE, esc |-> FALSE, err |-> FALSE]

\* append the pending tag to the row of the last character
Flush(st) == IF st.intag
             THEN [st EXCEPT !.rows[Len(st.rows)] = Append(@, st.tag), !.intag = FALSE, !.tag = <<>>]
             ELSE st

TokStep(st, c) ==
  IF st.err THEN st
  ELSE IF ~st.esc /\ c = BSL THEN [st EXCEPT !.esc = TRUE]
  ELSE IF ~st.esc /\ c = SP THEN
       IF st.text = <<>> \/ st.prevb THEN [st EXCEPT !.err = TRUE]
       ELSE [Flush(st) EXCEPT !.prevb = TRUE]
  ELSE IF ~st.esc /\ c = SLASH THEN
       IF st.text = <<>> \/ st.prevb THEN [st EXCEPT !.err = TRUE]
       ELSE [Flush(st) EXCEPT !.intag = TRUE, !.tag = <<>>]
  ELSE \* escaped character or ordinary character
       IF c = NUL THEN [st EXCEPT !.err = TRUE]
       ELSE IF st.intag THEN [st EXCEPT !.esc = FALSE, !.tag = Append(@, c)]
       ELSE [st EXCEPT !.esc = FALSE,
                       !.bnd = IF st.text = <<>> THEN @ ELSE Append(@, IF st.prevb THEN LW ELSE LN),
                       !.prevb = FALSE,
                       !.text = Append(@, c),
                       !.rows = Append(@, <<>>)]

TokFinal(s) == FoldLeft(TokStep, TokInit, s)

ParseTokenized(s) ==
  LET st == TokFinal(s) IN
  IF Len(s) = 0 \/ st.err \/ st.prevb \/ st.text = <<>> THEN ErrResult
  ELSE LET f == Flush(st) IN OkResult(f.text, f.bnd, f.rows)

\* The documentation leaves open whether a trailing lone backslash (after at least one
\* character) is an error or is ignored: both outcomes are allowed for such inputs.
TokOpenInput(s) == LET st == TokFinal(s) IN ~st.err /\ st.esc /\ st.text # <<>> /\ ~st.prevb

(* ---------------------------------------------------------------- partial annotation *)
PartInit == [text |-> <<>>, bnd |-> <<>>, rows |-> <<>>, tag |-> <<>>, intag |-> FALSE,
             esc |-> FALSE, ischar |-> TRUE, err |-> FALSE, nulintag |-> FALSE]

PartLabel(c) == IF c = SP THEN LU ELSE IF c = HYPHEN THEN LN ELSE LW

PartStep(st, c) ==
  IF st.err THEN st
  ELSE IF st.ischar THEN
       IF c = NUL THEN [st EXCEPT !.err = TRUE]
       ELSE [st EXCEPT !.text = Append(@, c), !.rows = Append(@, <<>>), !.ischar = FALSE]
  ELSE IF ~st.esc /\ c = BSL THEN [st EXCEPT !.esc = TRUE]
  ELSE IF ~st.esc /\ c \in {SP, HYPHEN, BAR} THEN
       [Flush(st) EXCEPT !.bnd = Append(@, PartLabel(c)), !.ischar = TRUE]
  ELSE IF ~st.esc /\ c = SLASH THEN [Flush(st) EXCEPT !.intag = TRUE, !.tag = <<>>]
  ELSE IF st.intag THEN [st EXCEPT !.esc = FALSE, !.tag = Append(@, c),
                                   !.nulintag = @ \/ c = NUL]
  ELSE [st EXCEPT !.err = TRUE]

PartFinal(s) == FoldLeft(PartStep, PartInit, s)

ParsePartial(s) ==
  LET st == PartFinal(s) IN
  IF Len(s) = 0 \/ st.err \/ st.ischar THEN ErrResult
  ELSE LET f == Flush(st) IN OkResult(f.text, f.bnd, f.rows)

\* open inputs: trailing lone backslash; NUL inside a tag (the grammar only forbids NUL as a
\* character of the text)
PartOpenInput(s) == LET st == PartFinal(s) IN
                    ~st.err /\ ~st.ischar /\ Len(s) > 0 /\ (st.esc \/ st.nulintag)

(* ---------------------------------------------------------------- outcome sets *)
\* the set of results the specification allows for (format, input)
Allowed(fmt, s) ==
  IF fmt = "raw" THEN {ParseRaw(s)}
  ELSE IF fmt = "tok" THEN (IF TokOpenInput(s) THEN {ParseTokenized(s), ErrResult} ELSE {ParseTokenized(s)})
  ELSE (IF PartOpenInput(s) THEN {ParsePartial(s), ErrResult} ELSE {ParsePartial(s)})

(* ---------------------------------------------------------------- observable state *)
\* what a parse result looks like through the accessors of a Sentence that holds it
\* (an empty tag is the absent tag <<>>, so empty tags need no normalisation)
FullState(r) == [res |-> "ok", text |-> r.text, types |-> r.types, bnd |-> r.bnd, ntags |-> r.ntags,
                 tags |-> r.tags, scores |-> <<>>, tokens |-> TokenRecords(r)]
DefaultSentence == FullState(OkResult(<<SP>>, <<>>, <<<<>>>>))
\* constructors: a result or an error (nothing else to observe on error)
AllowedNew(fmt, s) == {IF r.res = "ok" THEN FullState(r) ELSE [res |-> "err"] : r \in Allowed(fmt, s)}
\* updates: on error the sentence is the default single-space sentence
AllowedUpd(fmt, s) == {IF r.res = "ok" THEN FullState(r) ELSE [DefaultSentence EXCEPT !.res = "err"]
                       : r \in Allowed(fmt, s)}

(* ---------------------------------------------------------------- writers *)
Escape(t, specials) == Flatten([i \in 1..Len(t) |-> IF t[i] \in specials THEN <<BSL, t[i]>> ELSE <<t[i]>>])

\* number of leading entries of a tag row up to the last present tag
RowUsed(row) == IF \A j \in 1..Len(row) : row[j] = Absent THEN 0
                ELSE Max({j \in 1..Len(row) : row[j] # Absent})

WriteRow(row, specials) == Flatten([j \in 1..RowUsed(row) |-> <<SLASH>> \o Escape(row[j], specials)])

TokSpecials == {SP, BSL, SLASH}
PartSpecials == {SP, BSL, SLASH, HYPHEN, BAR}

WriteTokenized(sent) ==
  LET toks == TokenRecords(sent) IN
  Flatten([k \in 1..Len(toks) |->
      (IF k = 1 THEN <<>> ELSE <<SP>>) \o Escape(toks[k].surf, TokSpecials)
      \o WriteRow(toks[k].tags, TokSpecials)])

PartSym(l) == IF l = LU THEN SP ELSE IF l = LN THEN HYPHEN ELSE BAR

WritePartial(sent) ==
  Flatten([i \in 1..Len(sent.text) |->
      (IF i = 1 THEN <<>> ELSE <<PartSym(sent.bnd[i - 1])>>) \o <<sent.text[i]>>
      \o (IF sent.ntags = 0 THEN <<>> ELSE WriteRow(sent.tags[i], PartSpecials))])

(* ---------------------------------------------------------------- equivalence up to trailing absent tags *)
TrimRow(row) == SubSeq(row, 1, RowUsed(row))
\* per-character tag rows equal up to trailing absent tags
RowsEquiv(a, b) == Len(a) = Len(b) /\ \A i \in 1..Len(a) : TrimRow(a[i]) = TrimRow(b[i])
RowsOf(sent) == IF sent.ntags = 0 THEN [i \in 1..Len(sent.text) |-> <<>>] ELSE sent.tags

SentEquiv(a, b) == a.text = b.text /\ a.bnd = b.bnd /\ RowsEquiv(RowsOf(a), RowsOf(b))

\* per-token tag rows (tokenized format carries tags of tokens only)
TokenTagsEquiv(a, b) ==
  LET ta == TokenRecords(a)  tb == TokenRecords(b) IN
  Len(ta) = Len(tb) /\ \A k \in 1..Len(ta) :
      ta[k].s = tb[k].s /\ ta[k].e = tb[k].e /\ TrimRow(ta[k].tags) = TrimRow(tb[k].tags)

(* Round-trip theorems on the specification itself (checked by TLC in MC_Formats). *)
RoundTripTok(sent) ==  \* sent without unknown labels
  LET r == ParseTokenized(WriteTokenized(sent)) IN
  r.res = "ok" /\ r.text = sent.text /\ r.bnd = sent.bnd /\ TokenTagsEquiv(sent, r)

RoundTripPart(sent) ==
  LET r == ParsePartial(WritePartial(sent)) IN r.res = "ok" /\ SentEquiv(sent, r)
=============================================================================
