---------------------------- MODULE Gen_TrainCorpus ----------------------------
(* What the train tool feeds the trainer (C16 / C20, train/src/main.rs): every corpus line is      *)
(* parsed in its format; unless --no-norm is given the TEXT is replaced by its normalised form        *)
(* while boundaries and tags are kept (normalisation keeps character positions); the dictionary is     *)
(* the sorted set of token surfaces of the (normalised) dictionary lines, which also serve as the      *)
(* tag dictionary.  Input: one case per line of the file named by env CASES:                          *)
(*   [id, no_norm, tok : Seq(line), part : Seq(line), dict : Seq(line)]                              *)
EXTENDS VpFormats, VpNormalise, Json, IOUtils
CONSTANT Chains
Cases == ndJsonDeserialize(IOEnv.CASES)
VARIABLES k, l
Init == k \in 1..Chains /\ l = k
Next == l + Chains <= Len(Cases) /\ l' = l + Chains /\ k' = k

Load(fmt, line, noNorm) ==
  LET r == IF fmt = "tok" THEN ParseTokenized(line) ELSE ParsePartial(line) IN
  IF r.res # "ok" THEN [ok |-> FALSE, text |-> <<>>, bnd |-> <<>>, ntags |-> 0, tags |-> <<>>]
  ELSE [ok |-> TRUE, text |-> IF noNorm THEN r.text ELSE Normalise(r.text), bnd |-> r.bnd, ntags |-> r.ntags, tags |-> r.tags]

RECURSIVE LexLess(_, _)
LexLess(a, b) == IF a = <<>> THEN b # <<>>
                 ELSE IF b = <<>> THEN FALSE
                 ELSE IF a[1] # b[1] THEN a[1] < b[1]
                 ELSE LexLess(Tail(a), Tail(b))

Out(c) ==
  LET tok == [i \in 1..Len(c.tok) |-> Load("tok", c.tok[i], c.no_norm)]
      part == [i \in 1..Len(c.part) |-> Load("part", c.part[i], c.no_norm)]
      dict == [i \in 1..Len(c.dict) |-> Load("tok", c.dict[i], c.no_norm)]
      words == UNION {{TokenRecords(dict[i])[x].surf : x \in 1..Len(TokenRecords(dict[i]))} : i \in {j \in 1..Len(dict) : dict[j].ok}}
  IN [id |-> c.id,
      ok |-> (\A i \in 1..Len(tok) : tok[i].ok) /\ (\A i \in 1..Len(part) : part[i].ok) /\ (\A i \in 1..Len(dict) : dict[i].ok),
      sents |-> tok \o part, tagdict |-> dict, words |-> SetToSortSeq(words, LexLess)]
Emit == l <= Len(Cases) => PrintT(<<"CASE", ToJson(Out(Cases[l]))>>)
=============================================================================
