----------------------------- MODULE VpNormalise -----------------------------
(* The KyTea-compatible full-width normaliser (property C16, first half).                        *)
(* Table is the mapping of the pinned revision (96 entries, half-width -> full-width); it is *)
(* the specification's Normalise used by the Tantivy pipeline model.  The LAWS below are what C16  *)
(* states; the table's contents are a baseline, not a requirement (extending it keeps C16).       *)
EXTENDS VpBase

Table == <<
  <<97, 65345>>,
  <<98, 65346>>,
  <<99, 65347>>,
  <<100, 65348>>,
  <<101, 65349>>,
  <<102, 65350>>,
  <<103, 65351>>,
  <<104, 65352>>,
  <<105, 65353>>,
  <<106, 65354>>,
  <<107, 65355>>,
  <<108, 65356>>,
  <<109, 65357>>,
  <<110, 65358>>,
  <<111, 65359>>,
  <<112, 65360>>,
  <<113, 65361>>,
  <<114, 65362>>,
  <<115, 65363>>,
  <<116, 65364>>,
  <<117, 65365>>,
  <<118, 65366>>,
  <<119, 65367>>,
  <<120, 65368>>,
  <<121, 65369>>,
  <<122, 65370>>,
  <<65, 65313>>,
  <<66, 65314>>,
  <<67, 65315>>,
  <<68, 65316>>,
  <<69, 65317>>,
  <<70, 65318>>,
  <<71, 65319>>,
  <<72, 65320>>,
  <<73, 65321>>,
  <<74, 65322>>,
  <<75, 65323>>,
  <<76, 65324>>,
  <<77, 65325>>,
  <<78, 65326>>,
  <<79, 65327>>,
  <<80, 65328>>,
  <<81, 65329>>,
  <<82, 65330>>,
  <<83, 65331>>,
  <<84, 65332>>,
  <<85, 65333>>,
  <<86, 65334>>,
  <<87, 65335>>,
  <<88, 65336>>,
  <<89, 65337>>,
  <<90, 65338>>,
  <<48, 65296>>,
  <<49, 65297>>,
  <<50, 65298>>,
  <<51, 65299>>,
  <<52, 65300>>,
  <<53, 65301>>,
  <<54, 65302>>,
  <<55, 65303>>,
  <<56, 65304>>,
  <<57, 65305>>,
  <<40, 65288>>,
  <<41, 65289>>,
  <<123, 65371>>,
  <<125, 65373>>,
  <<60, 65308>>,
  <<62, 65310>>,
  <<65378, 12300>>,
  <<65379, 12301>>,
  <<91, 65339>>,
  <<93, 65341>>,
  <<45, 8722>>,
  <<65374, 12316>>,
  <<46, 12290>>,
  <<65293, 12540>>,
  <<47, 65295>>,
  <<95, 65343>>,
  <<44, 65292>>,
  <<37, 65285>>,
  <<63, 65311>>,
  <<65380, 12289>>,
  <<8213, 12540>>,
  <<34, 8221>>,
  <<39, 8217>>,
  <<65381, 12539>>,
  <<9472, 12540>>,
  <<43, 65291>>,
  <<58, 65306>>,
  <<8211, 12540>>,
  <<33, 65281>>,
  <<65377, 12290>>,
  <<38, 65286>>,
  <<42, 65290>>,
  <<64, 65312>>,
  <<61, 65309>> >>

TableDom == {Table[i][1] : i \in 1..Len(Table)}
TableRan == {Table[i][2] : i \in 1..Len(Table)}
MapChar(c) == IF c \in TableDom THEN Table[CHOOSE i \in 1..Len(Table) : Table[i][1] = c][2] ELSE c
Normalise(s) == [i \in 1..Len(s) |-> MapChar(s[i])]

\* laws (checked by TLC on the baseline table in MC_Normalise, and on the OBSERVED map in Trace_Normalise)
Functional == \A i, j \in 1..Len(Table) : Table[i][1] = Table[j][1] => i = j
IdempotentTable == TableDom \cap TableRan = {}      \* no image is itself remapped
NoNul == 0 \notin TableRan /\ 0 \notin TableDom

\* laws of an observed map: pairs = sequence of [c, out] for every scalar whose image is not <<c>>
ObservedOk(pairs) ==
  LET dom == {pairs[i].c : i \in 1..Len(pairs)} IN
  /\ \A i \in 1..Len(pairs) : Len(pairs[i].out) = 1                   \* one character in, one character out
  /\ \A i \in 1..Len(pairs) : pairs[i].out[1] \notin dom              \* idempotent
  /\ \A i \in 1..Len(pairs) : pairs[i].out[1] # 0
ObservedMap(pairs, c) == LET ids == {i \in 1..Len(pairs) : pairs[i].c = c} IN
                         IF ids = {} THEN c ELSE pairs[CHOOSE i \in ids : TRUE].out[1]
=============================================================================
