------------------------------ MODULE Trace_C16 ------------------------------
(* I->S validation for C16.                                                                   *)
(*  "table": the observed image of EVERY Unicode scalar value under the normaliser (only the     *)
(*           non-identity pairs are listed); the laws of VpNormalise must hold of it.            *)
(*  "str":   the filter on a string is the character-wise map of the observed table, keeps the   *)
(*           character count and is idempotent.                                               *)
(*  "tantivy": the adapter's token stream tiles the original text and breaks exactly where the   *)
(*           library pipeline (logged label vector) breaks.                                    *)
EXTENDS VpTantivy, Json, IOUtils
CONSTANT Chains
Rec == ndJsonDeserialize(IOEnv.TRACE)
VARIABLES k, l
Init == k \in 1..Chains /\ l = k
Next == l + Chains <= Len(Rec) /\ l' = l + Chains /\ k' = k

TableEv == Rec[1]
Pairs == TableEv.pairs

Accept(e) ==
  CASE e.ev = "table" -> /\ e.scanned = 1112064 /\ ObservedOk(e.pairs)
                         \* only the characters of the (KyTea-compatible) table change, each to its table image
                         /\ {<<e.pairs[i].c, e.pairs[i].out>> : i \in 1..Len(e.pairs)} = {<<Table[i][1], <<Table[i][2]>>>> : i \in 1..Len(Table)}
    [] e.ev = "str" -> /\ Len(e.out) = Len(e.s)
                       /\ \A i \in 1..Len(e.s) : e.out[i] = ObservedMap(Pairs, e.s[i])
                       /\ e.out2 = e.out
    [] e.ev = "tantivy" -> /\ e.ok
                           /\ Tiles(e.text, e.tokens)
                           /\ e.tokens = (IF e.text = <<>> THEN <<>> ELSE TokensAt(e.text, e.lib))
    [] OTHER -> FALSE
Check == l <= Len(Rec) => (Accept(Rec[l]) \/ PrintT(<<"REJECT", ToJson([l |-> l, id |-> Rec[l].id])>>))
\* information only: does the observed table equal the baseline table of VpNormalise?
BaselineNote == (l = 1 /\ Rec[1].ev = "table") =>
   ({<<Pairs[i].c, Pairs[i].out>> : i \in 1..Len(Pairs)} = {<<Table[i][1], <<Table[i][2]>>>> : i \in 1..Len(Table)}
    \/ PrintT(<<"NOTE", ToJson([l |-> 1, id |-> 0])>>))
=============================================================================
