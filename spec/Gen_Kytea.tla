------------------------------- MODULE Gen_Kytea -------------------------------
(* Case generator (S->I) for C17: small abstract KyTea models -- window sizes, sets of character   *)
(* and type n-grams (tries with shared prefixes, terminal inner nodes), feature vectors with and     *)
(* without surplus entries, 0..3 dictionaries with every membership mask, length buckets -- with     *)
(* the expected converted model (VpKytea!Convert) and the scores it implies on probe texts.         *)
EXTENDS VpKytea, Json
CONSTANTS CharWs, TypeWs, DictNs, NDictsSet, CSets, TSets, WSets, Surplus, NTagsSet
VARIABLES cw, tw, dn, nd, cs, ts, ws, phase, ntags

CPool == << <<97>>, <<12354>>, <<97, 12354>>, <<12354, 97>>, <<97, 12354, 97>>, <<97, 97>> >>
TPool == << <<72>>, <<82>>, <<72, 82>>, <<82, 72, 72>>, <<75>>, <<68, 79>>, <<72, 4>>, <<4>>, <<75, 72>>,
           <<84>>, <<84, 72>>, <<75, 84>> >>      \* 84 = 'T' (Katakana, whose converted type code is 4 - not the invalid code 0x04)
WPool == << <<97>>, <<12354, 97>>, <<97, 12354, 97>>, <<97, 97, 97, 97>> >>
Sel(pool, mask) == LET ids == {i \in 1..Len(pool) : BitSet(mask, i - 1)} IN [k \in 1..Cardinality(ids) |-> pool[SortedSeq(ids)[k]]]

Init == /\ cw \in CharWs /\ tw \in TypeWs /\ dn \in DictNs /\ nd \in NDictsSet /\ cs \in CSets /\ ts \in TSets /\ ws \in WSets
        /\ ntags \in NTagsSet /\ phase = 0
Next == phase = 0 /\ phase' = 1 /\ UNCHANGED <<cw, tw, dn, nd, cs, ts, ws, ntags>>

FPk(seed, k) == (IF (seed + k) % 2 = 0 THEN 1 ELSE -1) * (seed * 31 + k * 3 + 1)
Fits(g, W) == Len(g) <= 2 * W
KM ==
  LET cn == SelectSeq(Sel(CPool, cs), LAMBDA g: Fits(g, cw))
      tn == SelectSeq(Sel(TPool, ts), LAMBDA g: Fits(g, tw))
      wd == Sel(WPool, ws) IN
  [char_w |-> cw, type_w |-> tw, dict_n |-> dn, bias |-> -17,
   char_ngrams |-> [i \in 1..Len(cn) |-> [ng |-> cn[i], v |-> [k \in 1..(2 * cw - Len(cn[i]) + 1 + Surplus) |-> FPk(i, k)]]],
   type_ngrams |-> [i \in 1..Len(tn) |-> [ng |-> tn[i], v |-> [k \in 1..(2 * tw - Len(tn[i]) + 1 + Surplus) |-> FPk(10 + i, k)]]],
   \* dictionary weights: small mixed-sign fingerprints; with 3 dictionaries large positive and with 8 large negative values, so
   \* that the sum over the dictionaries a word belongs to leaves the signed 16-bit range of the file's own numbers
   n_dicts |-> nd, dict_vec |-> [k \in 1..(3 * dn * nd) |-> IF nd = 3 THEN 20000 + k ELSE IF nd = 8 THEN 0 - 20000 - k ELSE FPk(20, k)],
   \* masks: word i belongs to the dictionaries given by the bits of (i * 3 + 1), restricted to the existing ones
   words |-> IF nd = 0 THEN <<>> ELSE [i \in 1..Len(wd) |-> [w |-> wd[i], mask |-> (i * 3 + 1) % (2 ^ nd)]],
   ntags |-> ntags]
Probes == {<<97, 12354, 97>>, <<12354, 97, 97, 97, 97>>, <<97>>, <<28450, 97, 12354, 49>>}
Case == LET m == Convert(KM)  px == SetToSeq(Probes) IN
        [km |-> KM, expect |-> m, probes |-> [i \in 1..Len(px) |-> [text |-> px[i], scores |-> RefScores(m, px[i])]]]
\* KyTea files without any character n-gram or without any type n-gram carry no such dictionary at all; the converter
\* reports them as unusable ("no character dictionary").  They are outside Convert's domain and are not generated.
InDomain == KM.char_ngrams # <<>> /\ KM.type_ngrams # <<>>
Emit == (phase = 1 /\ InDomain) => PrintT(<<"CASE", ToJson(Case)>>)
\* a converted model is always well-formed
WF == (phase = 1 /\ InDomain) => WellFormed(Convert(KM))
=============================================================================
