------------------------------- MODULE VpBase -------------------------------
(* Basic vocabulary shared by all vaporetto specifications.                                  *)
(* Texts, tags, n-grams and byte streams are sequences of naturals (Unicode scalar values or *)
(* bytes); TLA+ strings are used only for outcome names.  Character positions are 1-based in *)
(* the specification (0-based in the Rust API); boundary b (1 <= b <= n-1) lies between the   *)
(* characters b and b+1 and is `boundaries()[b-1]` in the API.                               *)
EXTENDS Naturals, Integers, Sequences, FiniteSets, SequencesExt, FiniteSetsExt, Functions, TLC

\* boundary labels (CharacterBoundary as u8)
LN == 0   \* NotWordBoundary
LW == 1   \* WordBoundary
LU == 2   \* Unknown
Labels == {LN, LW, LU}

\* character types (CharacterType as u8)
TDigit == 1  TRoman == 2  THira == 3  TKata == 4  TKanji == 5  TOther == 6
CharTypes == 1..6

\* a few code points with a role in the formats
NUL == 0  LFc == 10  CRc == 13  SP == 32  DQUOTE == 34  COMMA == 44  HYPHEN == 45  SLASH == 47
BSL == 92  BAR == 124  TABc == 9  COLON == 58

InR(c, a, b) == c >= a /\ c <= b

(* Character classification as documented on `CharacterType` (digits, Latin letters,          *)
(* hiragana, katakana, kanji, everything else).                                              *)
CharType(c) ==
  IF InR(c, 48, 57) \/ InR(c, 65296, 65305) THEN TDigit
  ELSE IF InR(c, 65, 90) \/ InR(c, 97, 122) \/ InR(c, 65313, 65338) \/ InR(c, 65345, 65370) THEN TRoman
  ELSE IF InR(c, 12352, 12438) THEN THira
  ELSE IF InR(c, 12448, 12538) \/ InR(c, 12540, 12543) \/ InR(c, 65382, 65439) THEN TKata
  ELSE IF InR(c, 13312, 19903) \/ InR(c, 19968, 40959) \/ InR(c, 63744, 64255)
          \/ InR(c, 131072, 173791) \/ InR(c, 173824, 177983) \/ InR(c, 177984, 178207)
          \/ InR(c, 178208, 183983) \/ InR(c, 194560, 195103) THEN TKanji
  ELSE TOther

Types(s) == [i \in 1..Len(s) |-> CharType(s[i])]

Utf8Len(c) == IF c < 128 THEN 1 ELSE IF c < 2048 THEN 2 ELSE IF c < 65536 THEN 3 ELSE 4

SumSeq(s) == FoldLeft(LAMBDA a, b: a + b, 0, s)
SumFun(f, S) == FoldSet(LAMBDA x, acc: acc + f[x], 0, S)

\* byte offset (0-based) of the end of character i (1-based) of s; ByteOff(s, 0) = 0
ByteOff(s, i) == SumSeq([k \in 1..i |-> Utf8Len(s[k])])
ByteLen(s) == ByteOff(s, Len(s))

Min2(a, b) == IF a < b THEN a ELSE b
Max2(a, b) == IF a > b THEN a ELSE b

\* concatenation of a sequence of sequences
Flatten(ss) == FoldLeft(LAMBDA a, b: a \o b, <<>>, ss)

\* all sequences over S of length lo..hi
SeqsOf(S, lo, hi) == UNION {[1..n -> S] : n \in lo..hi}

\* occurrences (by 1-based END position) of pattern g in s
Occ(g, s) == IF Len(g) = 0 THEN {} ELSE {e \in Len(g)..Len(s) : SubSeq(s, e - Len(g) + 1, e) = g}

IsSuffixOf(a, b) == Len(a) <= Len(b) /\ SubSeq(b, Len(b) - Len(a) + 1, Len(b)) = a

\* sort a finite set of integer pairs/ints into a sequence
SortedSeq(S) == SetToSortSeq(S, LAMBDA a, b: a < b)
=============================================================================
