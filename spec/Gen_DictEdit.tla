------------------------------ MODULE Gen_DictEdit ------------------------------
(* C19, library half: replacing the dictionary of a model.  ReplaceDict changes the dictionary     *)
(* and nothing else; the score of each boundary changes by exactly the difference between the new    *)
(* and the old entries' weights over all occurrences (checked by TLC on every generated case);       *)
(* records whose weight count does not match the word length are rejected.                          *)
EXTENDS VpModel, Json
CONSTANTS OldSel, NewSel, TextAlpha, MaxText, BadCounts, NoCngSet, DupSet
VARIABLES old, new, phase, nocng, dup

ReplaceDict(m, d) == [m EXCEPT !.dict = d]

Long9 == <<97, 12354, 97, 97, 12354, 97, 12354, 12354, 97>>                      \* 9 characters: 10 weights (variable-length layout)
Long12 == <<12354, 97, 97, 12354, 12354, 97, 97, 97, 12354, 97, 12354, 97>>       \* 12 characters: 13 weights
WPool == << <<97>>, <<12354, 97>>, <<97, 12354, 97>>, <<97, 97>>, <<28450>>, Long9, Long12 >>
BitSet(mask, j) == (mask \div (2 ^ j)) % 2 = 1
SelW(mask) == LET ids == {i \in 1..Len(WPool) : BitSet(mask, i - 1)} IN [k \in 1..Cardinality(ids) |-> WPool[SortedSeq(ids)[k]]]
FP(seed, i, k) == (IF (i + k + seed) % 2 = 0 THEN 1 ELSE -1) * (seed * 1000 + i * 37 + k * 11 + 1)
DictOf(mask, seed) == LET ws == SelW(mask) IN [i \in 1..Len(ws) |-> [ng |-> ws[i], w |-> [k \in 1..(Len(ws[i]) + 1) |-> FP(seed, i, k)], c |-> <<99, 44, 34>>]]

Base == [bias |-> -4, cw |-> 2, tw |-> 1,
         cng |-> << [ng |-> <<97>>, w |-> <<3, -8, 6, 1>>], [ng |-> <<12354, 97>>, w |-> <<5, -2, 7>>] >>,
         tng |-> << [ng |-> <<2>>, w |-> <<-3, 2>>] >>, dict |-> <<>>,
         tags |-> << [token |-> <<97>>, cats |-> << <<<<65>>, <<66>>>> >>, cng |-> <<>>, tng |-> <<>>, bias |-> <<1, 2>>] >>]

Init == old \in OldSel /\ new \in NewSel /\ nocng \in NoCngSet /\ dup \in DupSet /\ phase = 0
Next == phase = 0 /\ phase' = 1 /\ UNCHANGED <<old, new, nocng, dup>>

\* nocng: a model whose ONLY character-level entries are dictionary words (no character n-grams, no tag models)
Base2 == IF nocng THEN [Base EXCEPT !.cng = <<>>, !.tags = <<>>] ELSE Base
M0 == ReplaceDict(Base2, DictOf(old, 1))
\* dup: the first record is repeated (same word, same weights, another comment): every record counts
NewDict == LET d == DictOf(new, 2) IN
           IF dup /\ Len(d) >= 1 THEN <<d[1], [d[1] EXCEPT !.c = <<100, 117, 112>>]>> \o SubSeq(d, 2, Len(d)) ELSE d
M1 == ReplaceDict(M0, NewDict)
Texts == SetToSeq(SeqsOf(TextAlpha, 1, MaxText) \cup {<<28450>> \o Long9 \o <<97>>, Long12, <<97>> \o Long12 \o Long9})
DictSum(d, text, b) == SumSeq([i \in 1..Len(d) |-> DictContrib(d[i], text, b)])
\* the documented effect of the edit
DiffLaw == phase = 1 => \A i \in 1..Len(Texts) : \A b \in 1..(Len(Texts[i]) - 1) :
   RefScore(M1, Texts[i], b) - RefScore(M0, Texts[i], b) = DictSum(NewDict, Texts[i], b) - DictSum(M0.dict, Texts[i], b)
\* records with a wrong number of weights (word length + 1 is required)
BadRecords == IF BadCounts THEN << [ng |-> <<97, 98>>, w |-> <<1, 2>>, c |-> <<>>], [ng |-> <<97>>, w |-> <<1, 2, 3>>, c |-> <<>>], [ng |-> <<12354>>, w |-> <<>>, c |-> <<>>] >> ELSE <<>>
Case == [model |-> M0, newdict |-> NewDict \o BadRecords,
         records |-> [i \in 1..(Len(NewDict) + Len(BadRecords)) |-> IF i <= Len(NewDict) THEN "ok" ELSE "err"],
         model_after |-> M1,
         texts |-> Texts, before |-> [i \in 1..Len(Texts) |-> RefScores(M0, Texts[i])], after |-> [i \in 1..Len(Texts) |-> RefScores(M1, Texts[i])]]
Emit == phase = 1 => PrintT(<<"CASE", ToJson(Case)>>)
=============================================================================
