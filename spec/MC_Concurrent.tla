---------------------------- MODULE MC_Concurrent ----------------------------
(* C08, schedules.  N threads call predict on ONE shared immutable predictor, each on its own   *)
(* Sentence.  predict is modelled as the sequence of steps the code performs (initialise the     *)
(* score buffer with the bias, add character contributions, add type contributions, decide).    *)
(* TLC explores every interleaving; every completed call must carry RefScores/RefLabels of its   *)
(* own text.  With SharedScratch = TRUE (a mutant: one scratch buffer inside the predictor) the  *)
(* invariant must fail.                                                                         *)
EXTENDS VpModel
CONSTANTS NThreads, SharedScratch, Calls
VARIABLES pc, text, buf, res, ncalls

M == [bias |-> -2, cw |-> 1, tw |-> 1,
      cng |-> << [ng |-> <<97>>, w |-> <<3, -4>>] >>,
      tng |-> << [ng |-> <<3>>, w |-> <<-1, 5>>] >>,
      dict |-> << [ng |-> <<97, 12354>>, w |-> <<2, 6, -3>>] >>, tags |-> <<>>]
TextPool == {<<97, 12354>>, <<12354, 97, 97>>}
Threads == 1..NThreads
Slot(t) == IF SharedScratch THEN 1 ELSE t

CharPart(x) == [b \in 1..(Len(x) - 1) |->
                  SumSeq([i \in 1..Len(M.cng) |-> NgContrib(M.cng[i], M.cw, x, b)])
                + SumSeq([i \in 1..Len(M.dict) |-> DictContrib(M.dict[i], x, b)])]
TypePart(x) == [b \in 1..(Len(x) - 1) |-> SumSeq([i \in 1..Len(M.tng) |-> NgContrib(M.tng[i], M.tw, Types(x), b)])]
AddTo(v, d) == [i \in 1..Len(d) |-> (IF i <= Len(v) THEN v[i] ELSE 0) + d[i]]

Init == /\ pc = [t \in Threads |-> "idle"] /\ text = [t \in Threads |-> <<>>]
        /\ buf = [t \in Threads |-> <<>>] /\ res = [t \in Threads |-> <<>>] /\ ncalls = [t \in Threads |-> 0]

Begin(t) == /\ pc[t] = "idle" /\ ncalls[t] < Calls
            /\ \E x \in TextPool : text' = [text EXCEPT ![t] = x]
            /\ pc' = [pc EXCEPT ![t] = "init"] /\ ncalls' = [ncalls EXCEPT ![t] = @ + 1]
            /\ UNCHANGED <<buf, res>>
InitScores(t) == /\ pc[t] = "init"
                 /\ buf' = [buf EXCEPT ![Slot(t)] = [b \in 1..(Len(text[t]) - 1) |-> M.bias]]
                 /\ pc' = [pc EXCEPT ![t] = "char"] /\ UNCHANGED <<text, res, ncalls>>
AddChar(t) == /\ pc[t] = "char"
              /\ buf' = [buf EXCEPT ![Slot(t)] = AddTo(@, CharPart(text[t]))]
              /\ pc' = [pc EXCEPT ![t] = "type"] /\ UNCHANGED <<text, res, ncalls>>
AddType(t) == /\ pc[t] = "type"
              /\ buf' = [buf EXCEPT ![Slot(t)] = AddTo(@, TypePart(text[t]))]
              /\ pc' = [pc EXCEPT ![t] = "decide"] /\ UNCHANGED <<text, res, ncalls>>
Decide(t) == /\ pc[t] = "decide"
             /\ res' = [res EXCEPT ![t] = buf[Slot(t)]]
             /\ pc' = [pc EXCEPT ![t] = "done"] /\ UNCHANGED <<text, buf, ncalls>>
Return(t) == /\ pc[t] = "done" /\ pc' = [pc EXCEPT ![t] = "idle"] /\ UNCHANGED <<text, buf, res, ncalls>>

Next == \E t \in Threads : Begin(t) \/ InitScores(t) \/ AddChar(t) \/ AddType(t) \/ Decide(t) \/ Return(t)

ResultsCorrect == \A t \in Threads : pc[t] = "done" => res[t] = RefScores(M, text[t])
=============================================================================
