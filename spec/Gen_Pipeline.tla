------------------------------ MODULE Gen_Pipeline ------------------------------
(* Sweep generator for C11 (training is total): every (char window, char n, type window, type n)   *)
(* in the range including 0 and n > window, every solver, every corpus class, dictionary or not.     *)
(* The expected behaviour is not computed here: each run is validated by Trace_Train!PipelineOk.    *)
EXTENDS Naturals, TLC, Json
CONSTANTS Sizes, Solvers, NClasses, DictKinds
VARIABLES cw, cn, tw, tn, solver, cls, dk
Init == cw \in Sizes /\ cn \in Sizes /\ tw \in Sizes /\ tn \in Sizes /\ solver \in Solvers /\ cls \in 1..NClasses /\ dk \in DictKinds
Next == UNCHANGED <<cw, cn, tw, tn, solver, cls, dk>>
Emit == PrintT(<<"CASE", ToJson([cw |-> cw, cn |-> cn, tw |-> tw, tn |-> tn, solver |-> solver, cls |-> cls, dk |-> dk])>>)
=============================================================================
