---------------------------- MODULE Trace_Lifecycle ----------------------------
(* I->S validation of recorded random call histories on one Sentence object (C05, C08).         *)
(* The trace spec carries the abstract sentence state; each logged call is applied with         *)
(* VpLifecycle!ApplyOp and the logged observable state must be the one the specification        *)
(* predicts (one of the allowed ones for inputs the documentation leaves open).  After a         *)
(* rejected line the abstract state is re-synchronised from the logged observation so that the   *)
(* rest of the trace is still checked.                                                         *)
EXTENDS VpLifecycle, Json, IOUtils
Rec == ndJsonDeserialize(IOEnv.TRACE)
VARIABLES l, st, preds

Init == l = 1 /\ st = DefaultState /\ preds = <<>>

Alts(s, op) ==
  LET r == ApplyOp(s, preds, op) IN
  IF op.op = "up_tok" /\ TokOpenInput(op.s) THEN {r, [st |-> DefaultState, res |-> "err"]}
  ELSE IF op.op = "up_part" /\ PartOpenInput(op.s) THEN {r, [st |-> DefaultState, res |-> "err"]}
  ELSE {r}

Matches(a, e) ==
  LET o == Obs(a.st, a.res) IN
  /\ e.obs.sane /\ e.res = a.res
  /\ e.obs.text = o.text /\ e.obs.types = o.types /\ e.obs.bnd = o.bnd /\ e.obs.ntags = o.ntags
  /\ e.obs.tags = o.tags /\ e.obs.scores = o.scores /\ e.obs.tokens = o.tokens
  /\ e.obs.wtok = o.wtok /\ e.obs.wpart = o.wpart

\* abstract state taken from an observation (used only to re-synchronise after a rejection)
Resync(e, plink) == IF e.obs.sane /\ Len(e.obs.text) >= 1
                    THEN MkState(e.obs.text, e.obs.bnd, e.obs.ntags, e.obs.tags, e.obs.scores, plink)
                    ELSE DefaultState

Reject(e) == PrintT(<<"REJECT", ToJson([l |-> l, id |-> e.id])>>)

StepOp(e) ==
  IF ~OpEnabled(st, preds, e.op)
  THEN \* fill_tags through a predictor built without tag prediction: the documented panic, nothing changes
       /\ (IF e.res = "panic" /\ Matches([st |-> st, res |-> "panic"], e) THEN TRUE ELSE Reject(e))
       /\ st' = st
  ELSE LET good == {a \in Alts(st, e.op) : Matches(a, e)} IN
       IF good # {} THEN st' = (CHOOSE a \in good : TRUE).st
       ELSE /\ Reject(e)
            /\ st' = Resync(e, ApplyOp(st, preds, e.op).st.plink)

Next == /\ l <= Len(Rec)
        /\ LET e == Rec[l] IN
           CASE e.ev = "hist_init" -> /\ preds' = e.preds /\ st' = DefaultState
             [] e.ev = "op" -> /\ StepOp(e) /\ UNCHANGED preds
             [] OTHER -> /\ Reject(e) /\ UNCHANGED <<st, preds>>
        /\ l' = l + 1
Consumed == IF TLCGet("stats").diameter - 1 = Len(Rec) THEN TRUE
            ELSE PrintT(<<"REJECT", ToJson([l |-> TLCGet("stats").diameter, id |-> -1])>>)
=============================================================================
