-------------------------------- MODULE Trace_Cli --------------------------------
(* I->S validation of the predict tool (C20): each event is one process run: flags, stdin, exit    *)
(* status, stdout, and the library pipeline's result for every input line.                         *)
EXTENDS VpCli, Json, IOUtils
CONSTANT Chains
Rec == ndJsonDeserialize(IOEnv.TRACE)
VARIABLES k, l
Init == k \in 1..Chains /\ l = k
Next == l + Chains <= Len(Rec) /\ l' = l + Chains /\ k' = k

Accept(e) ==
  CASE e.ev = "predict" ->
         \* no input line makes the tool crash (a usage error before any input is read is not a crash)
         IF e.status # 0 THEN e.usage_error /\ e.stdout = <<>> /\ e.flags.tag_scores /\ ~e.flags.predict_tags
         ELSE e.utf8 /\ PredictOutputOk(e.stdin, e.lines, e.flags, e.stdout)
    [] OTHER -> FALSE
Check == l <= Len(Rec) => (Accept(Rec[l]) \/ PrintT(<<"REJECT", ToJson([l |-> l, id |-> Rec[l].id])>>))
=============================================================================
