------------------------------- MODULE VpModel -------------------------------
(* Layer R: what a model means (properties C01, C06).  Written from the property statements:  *)
(* a pointwise linear model over every occurrence of every entry.                            *)
(*                                                                                           *)
(* model == [bias, cw, tw,                                                                   *)
(*           cng  : Seq([ng, w]),      character n-grams, Len(w) = 2*cw - Len(ng) + 1         *)
(*           tng  : Seq([ng, w]),      character-type n-grams (over type codes 1..6)          *)
(*           dict : Seq([ng, w]),      dictionary words, Len(w) = Len(ng) + 1                 *)
(*           tags : Seq([token, cats : Seq(Seq(tag)), cng/tng : Seq([ng, tw : Seq([rel, w])]), *)
(*                       bias : Seq(Int)])]                                                  *)
EXTENDS VpBase, VpTokens

(* ------------------------------------------------------------------ boundary scores *)
\* weight an n-gram entry (window W) gives boundary b for its occurrence ending at e:
\* the first weight belongs to the left-most boundary of the window, slot k = b - (e - W) + 1
NgSlot(W, e, b) == b - (e - W) + 1
\* a dictionary word: first weight = boundary just before the word, last = boundary just after it
DictSlot(len, e, b) == b - (e - len) + 1

WeightAt(w, k) == IF k >= 1 /\ k <= Len(w) THEN w[k] ELSE 0

NgContrib(ent, W, s, b) == SumFun([e \in Occ(ent.ng, s) |-> WeightAt(ent.w, NgSlot(W, e, b))], Occ(ent.ng, s))
DictContrib(ent, s, b) == SumFun([e \in Occ(ent.ng, s) |-> WeightAt(ent.w, DictSlot(Len(ent.ng), e, b))], Occ(ent.ng, s))

RefScore(m, text, b) ==
    m.bias
  + SumSeq([i \in 1..Len(m.cng) |-> NgContrib(m.cng[i], m.cw, text, b)])
  + SumSeq([i \in 1..Len(m.tng) |-> NgContrib(m.tng[i], m.tw, Types(text), b)])
  + SumSeq([i \in 1..Len(m.dict) |-> DictContrib(m.dict[i], text, b)])

RefScores(m, text) == [b \in 1..(Len(text) - 1) |-> RefScore(m, text, b)]
\* strictly positive = word boundary, otherwise not; never unknown
RefLabels(m, text) == [b \in 1..(Len(text) - 1) |-> IF RefScore(m, text, b) > 0 THEN LW ELSE LN]

(* ------------------------------------------------------------------ tag classifiers *)
NClasses(tm) == SumSeq([j \in 1..Len(tm.cats) |-> IF Len(tm.cats[j]) >= 2 THEN Len(tm.cats[j]) ELSE 0])

VecAdd(a, b) == [i \in 1..Len(a) |-> a[i] + (IF i <= Len(b) THEN b[i] ELSE 0)]
ZeroVec(n) == [i \in 1..n |-> 0]

\* contribution of one tag n-gram entry for a token whose last character is p (1-based):
\* the weights stated for offset rel apply when the n-gram ends rel characters after p
TagEntryContrib(ent, s, p, n) ==
  FoldLeft(LAMBDA acc, t: IF (p + t.rel) \in Occ(ent.ng, s) THEN VecAdd(acc, t.w) ELSE acc, ZeroVec(n), ent.tw)

RefTagScores(tm, text, p) ==
  LET n == NClasses(tm)
      c == FoldLeft(LAMBDA acc, ent: VecAdd(acc, TagEntryContrib(ent, text, p, n)), ZeroVec(n), tm.cng)
      t == FoldLeft(LAMBDA acc, ent: VecAdd(acc, TagEntryContrib(ent, Types(text), p, n)), ZeroVec(n), tm.tng)
  IN VecAdd(VecAdd(VecAdd(ZeroVec(n), tm.bias), c), t)

\* first index of the maximum
ArgMaxFirst(v) == CHOOSE i \in 1..Len(v) : (\A j \in 1..Len(v) : v[j] <= v[i]) /\ (\A j \in 1..(i - 1) : v[j] < v[i])

ClassOffset(tm, j) == SumSeq([k \in 1..(j - 1) |-> IF Len(tm.cats[k]) >= 2 THEN Len(tm.cats[k]) ELSE 0])

\* the tag row (one entry per category of this model) chosen for a token
TagChoice(tm, scores) ==
  [j \in 1..Len(tm.cats) |->
     IF Len(tm.cats[j]) >= 2
     THEN tm.cats[j][ArgMaxFirst(SubSeq(scores, ClassOffset(tm, j) + 1, ClassOffset(tm, j) + Len(tm.cats[j])))]
     ELSE IF Len(tm.cats[j]) = 1 THEN tm.cats[j][1] ELSE <<>>]

\* candidates with scores as reported when score storing is enabled (single candidate: score 0)
TagCands(tm, scores) ==
  [j \in 1..Len(tm.cats) |->
     IF Len(tm.cats[j]) = 1 THEN <<[t |-> tm.cats[j][1], s |-> 0]>>
     ELSE [c \in 1..Len(tm.cats[j]) |-> [t |-> tm.cats[j][c], s |-> scores[ClassOffset(tm, j) + c]]]]

ModelNTags(m) == IF Len(m.tags) = 0 THEN 0 ELSE Max({Len(m.tags[i].cats) : i \in 1..Len(m.tags)})

TagModelFor(m, surf) == {i \in 1..Len(m.tags) : m.tags[i].token = surf}

PadRow(row, k) == row \o [j \in 1..(k - Len(row)) |-> <<>>]

\* tag rows (one per character) after fill_tags on a sentence with the given labels
RefTagRows(m, text, bnd) ==
  LET k == ModelNTags(m)
      toks == RefTokens(bnd)
      LastOf == {toks[i][2] : i \in 1..Len(toks)}
      TokEnding(p) == CHOOSE i \in 1..Len(toks) : toks[i][2] = p
  IN [p \in 1..Len(text) |->
       IF p \notin LastOf THEN PadRow(<<>>, k)
       ELSE LET tk == toks[TokEnding(p)]
                surf == SubSeq(text, tk[1] + 1, tk[2])
                ids == TagModelFor(m, surf)
            IN IF ids = {} THEN PadRow(<<>>, k)
               ELSE LET tm == m.tags[CHOOSE i \in ids : TRUE] IN
                    PadRow(TagChoice(tm, RefTagScores(tm, text, p)), k)]

\* candidates per token (when score storing is on): <<>> for tokens without a tag model
RefTokenCands(m, text, bnd) ==
  LET toks == RefTokens(bnd) IN
  [i \in 1..Len(toks) |->
     LET surf == SubSeq(text, toks[i][1] + 1, toks[i][2])  ids == TagModelFor(m, surf) IN
     IF ids = {} THEN <<>>
     ELSE LET tm == m.tags[CHOOSE x \in ids : TRUE] IN TagCands(tm, RefTagScores(tm, text, toks[i][2]))]

(* ------------------------------------------------------------------ well-formedness *)
WellFormedNg(ent, W) == Len(ent.ng) >= 1 /\ Len(ent.ng) <= 2 * W /\ Len(ent.w) = 2 * W - Len(ent.ng) + 1
WellFormed(m) ==
  /\ m.cw >= 1 /\ m.tw >= 1
  /\ \A i \in 1..Len(m.cng) : WellFormedNg(m.cng[i], m.cw)
  /\ \A i \in 1..Len(m.tng) : WellFormedNg(m.tng[i], m.tw)
  /\ \A i \in 1..Len(m.dict) : Len(m.dict[i].ng) >= 1 /\ Len(m.dict[i].w) = Len(m.dict[i].ng) + 1
  /\ \A i, j \in 1..Len(m.cng) : i # j => m.cng[i].ng # m.cng[j].ng
  /\ \A i, j \in 1..Len(m.tng) : i # j => m.tng[i].ng # m.tng[j].ng
  /\ \A i, j \in 1..Len(m.tags) : i # j => m.tags[i].token # m.tags[j].token
  /\ \A i \in 1..Len(m.tags) : LET tm == m.tags[i] IN
       /\ Len(tm.bias) = NClasses(tm)
       /\ \A x \in 1..Len(tm.cng) : \A y \in 1..Len(tm.cng[x].tw) :
            tm.cng[x].tw[y].rel <= m.cw /\ Len(tm.cng[x].tw[y].w) = NClasses(tm)
       /\ \A x \in 1..Len(tm.tng) : \A y \in 1..Len(tm.tng[x].tw) :
            tm.tng[x].tw[y].rel <= m.tw /\ Len(tm.tng[x].tw[y].w) = NClasses(tm)

(* ------------------------------------------------------------------ observable result of prediction *)
\* projection of a sentence after update_raw(text); predict(model) [; fill_tags]
RefPredict(m, text, fill) ==
  LET bnd == RefLabels(m, text)
      k == IF fill THEN ModelNTags(m) ELSE 0
      rows == IF fill /\ k > 0 THEN RefTagRows(m, text, bnd) ELSE [p \in 1..Len(text) |-> <<>>]
      st == [text |-> text, bnd |-> bnd, ntags |-> k, tags |-> rows]
  IN [res |-> "ok", text |-> text, types |-> Types(text), bnd |-> bnd, ntags |-> k, tags |-> rows,
      scores |-> RefScores(m, text), tokens |-> TokenRecords(st)]
=============================================================================
