------------------------------ MODULE Trace_Files ------------------------------
(* I->S validation of the fault enumeration on real serialisations (C07).  One event per         *)
(* (file, operation, truncation point / fault position / corruption / trailing bytes).           *)
EXTENDS VpFiles, Json, IOUtils, Integers
CONSTANTS Chains, Hdr
Rec == ndJsonDeserialize(IOEnv.TRACE)
VARIABLES k, l
Init == k \in 1..Chains /\ l = k
Next == l + Chains <= Len(Rec) /\ l' = l + Chains /\ k' = k

Accept(e) ==
  CASE e.op = "canon" -> e.outcome = "ok" /\ e.reser = e.bytes
    [] e.op = "read_slice_full" ->                       \* complete file + trailing bytes
         /\ e.outcome = SliceOutcome(e.len, e.len + Len(e.trail), TRUE)
         /\ e.rest = e.trail                              \* RestIsTrailing
         /\ e.reser = e.bytes                             \* re-serialises to the identical bytes
         /\ e.pred.a = e.pred.b                           \* and predicts identically
    [] e.op = "read_full" ->
         /\ e.outcome = ReadOutcome(e.len, e.len + Len(e.trail), NoFault, TRUE)
         /\ e.consumed = e.len /\ e.reser = e.bytes
    [] e.op = "write_full" -> e.outcome = WriteOutcome(e.len, NoFault) /\ e.written = e.bytes
    [] e.op = "read_slice" -> e.outcome = SliceOutcome(e.len, e.cut, TRUE)          \* PrefixRejected, NeverPanic
    [] e.op = "read" -> e.outcome = ReadOutcome(e.len, e.cut, NoFault, TRUE)
    [] e.op = "read_fault" -> e.outcome = ReadOutcome(e.len, e.len, e.fault, TRUE)   \* FaultYieldsErr
    [] e.op = "write_fault" -> e.outcome = WriteOutcome(e.len, e.fault) /\ e.nwritten <= e.fault
    [] e.op = "header_slice" -> e.outcome = SliceOutcome(e.len, e.len, FALSE)        \* ForeignHeaderRejected
    [] e.op = "header_read" -> e.outcome = ReadOutcome(e.len, e.len, NoFault, FALSE)
    [] e.op = "big" ->                                   \* a large well-formed model (digests): both readers, exact consumption
         /\ e.read_outcome = ReadOutcome(e.len, e.len, NoFault, TRUE) /\ e.consumed = e.len /\ e.reader_same
         /\ e.slice_outcome = SliceOutcome(e.len, e.len, TRUE) /\ e.slice_same /\ e.rest_len = 0
    [] e.op = "tool_write" ->                            \* a model-writing command-line tool: len = 1 unit, the sink fails after `fault` units
         e.outcome = WriteOutcome(e.len, IF e.good_sink THEN NoFault ELSE e.fault)
    [] OTHER -> FALSE
Check == l <= Len(Rec) => (Accept(Rec[l]) \/ PrintT(<<"REJECT", ToJson([l |-> l, id |-> Rec[l].id])>>))
=============================================================================
