------------------------------ MODULE Gen_Score ------------------------------
(* Case generator (S->I) for C01 (and re-used by C13, C14, C18, C19): TLC enumerates every    *)
(* model of a family -- window sizes, every set of at most K entries drawn from pools of       *)
(* character n-grams, type n-grams and dictionary words (so entries that are suffixes of, or   *)
(* equal to, each other occur) -- and for each model every text over TextAlpha up to MaxText,  *)
(* with the expected scores/labels/tokens computed by the reference semantics.                *)
(* The search tree is over entry sets: each distinct set is one TLC state.                   *)
EXTENDS VpModel, Json
CONSTANTS CWs, TWs, SameW,
          CAlpha, MaxCLen, KC,        \* character n-gram pool and max. number of entries
          TAlpha, MaxTLen, KT,        \* type n-gram pool (type codes)
          DAlpha, MaxDLen, KD,        \* dictionary word pool
          KTotal, TextAlpha, MaxText, MinText, ZeroHit
VARIABLES cw, tw, cset, tset, dset

Pool(alpha, lo, hi) == SeqsOf(alpha, lo, hi)

Init == /\ cw \in CWs /\ tw \in TWs /\ (SameW => cw = tw)
        /\ cset = {} /\ tset = {} /\ dset = {}

Total == Cardinality(cset) + Cardinality(tset) + Cardinality(dset)

\* canonical growth order (character n-grams, then type n-grams, then words; each set grows in
\* a fixed enumeration order) is not needed: TLC merges states reached by different orders.
Next == /\ Total < KTotal
        /\ \/ /\ Cardinality(cset) < KC
              /\ \E g \in Pool(CAlpha, 1, Min2(MaxCLen, 2 * cw)) \ cset : cset' = cset \cup {g}
              /\ UNCHANGED <<cw, tw, tset, dset>>
           \/ /\ Cardinality(tset) < KT
              /\ \E g \in Pool(TAlpha, 1, Min2(MaxTLen, 2 * tw)) \ tset : tset' = tset \cup {g}
              /\ UNCHANGED <<cw, tw, cset, dset>>
           \/ /\ Cardinality(dset) < KD
              /\ \E g \in Pool(DAlpha, 1, MaxDLen) \ dset : dset' = dset \cup {g}
              /\ UNCHANGED <<cw, tw, cset, tset>>

\* weights: a fingerprint of (kind, entry index, slot) with mixed signs, inside the i16 range
FP(kind, i, k) == (IF (i + k + kind) % 2 = 0 THEN 1 ELSE -1) * (kind * 1000 + i * 97 + k * 7 + 1)

Model0 ==
  LET cs == SetToSeq(cset)  ts == SetToSeq(tset)  ds == SetToSeq(dset) IN
  [bias |-> 0, cw |-> cw, tw |-> tw,
   cng |-> [i \in 1..Len(cs) |-> [ng |-> cs[i], w |-> [k \in 1..(2 * cw - Len(cs[i]) + 1) |-> FP(1, i, k)]]],
   tng |-> [i \in 1..Len(ts) |-> [ng |-> ts[i], w |-> [k \in 1..(2 * tw - Len(ts[i]) + 1) |-> FP(2, i, k)]]],
   dict |-> [i \in 1..Len(ds) |-> [ng |-> ds[i], w |-> [k \in 1..(Len(ds[i]) + 1) |-> FP(3, i, k)]]],
   tags |-> <<>>]

Texts == SeqsOf(TextAlpha, MinText, MaxText)
\* with ZeroHit the bias is chosen such that the first boundary of one probe text scores exactly 0
Probe == CHOOSE t \in Texts : Len(t) >= 2 /\ \A u \in Texts : Len(u) >= 2 => Len(t) >= Len(u)
Model == IF ZeroHit /\ \E t \in Texts : Len(t) >= 2
         THEN [Model0 EXCEPT !.bias = 0 - RefScore(Model0, Probe, 1)] ELSE [Model0 EXCEPT !.bias = 3]

Case == LET m == Model  tx == SetToSeq(Texts) IN
        [model |-> m, runs |-> [i \in 1..Len(tx) |-> [text |-> tx[i], expect |-> RefPredict(m, tx[i], FALSE)]]]

Emit == Total >= 1 => PrintT(<<"CASE", ToJson(Case)>>)
WF == WellFormed(Model)
=============================================================================
