------------------------------ MODULE Gen_Score ------------------------------
(* Case generator (S->I) for C01 (and re-used by C13, C14, C18, C19): TLC enumerates every    *)
(* model of a family -- window sizes, every set of at most K entries drawn from pools of       *)
(* character n-grams, type n-grams and dictionary words (so entries that are suffixes of, or   *)
(* equal to, each other occur) -- and for each model every text over TextAlpha up to MaxText,  *)
(* with the expected scores/labels/tokens computed by the reference semantics.                *)
(* The search tree is over entry sets: each distinct set is one TLC state.                   *)
EXTENDS VpModel, Json
CONSTANTS CWs, TWs, SameW,
          CAlpha, MaxCLen, KC,        \* character n-gram pool and max. number of entries
          TAlpha, MaxTLen, KT,        \* type n-gram pool (type codes)
          DAlpha, MaxDLen, KD,        \* dictionary word pool
          KTotal, TextAlpha, MaxText, MinText, ZeroHit,
          WMode                       \* 0: fingerprint weights; 1: "cancelling" weights (see CancelNg / CancelDict);
                                      \* 2: "right-only": zero for every boundary left of the entry's end (long vectors with leading zeros)
VARIABLES cw, tw, cset, tset, dset

Pool(alpha, lo, hi) == SeqsOf(alpha, lo, hi)

Init == /\ cw \in CWs /\ tw \in TWs /\ (SameW => cw = tw)
        /\ cset = {} /\ tset = {} /\ dset = {}

Total == Cardinality(cset) + Cardinality(tset) + Cardinality(dset)

\* canonical growth order (character n-grams, then type n-grams, then words; each set grows in
\* a fixed enumeration order) is not needed: TLC merges states reached by different orders.
Next == /\ Total < KTotal
        /\ \/ /\ Cardinality(cset) < KC
              /\ \E g \in Pool(CAlpha, 1, Min2(MaxCLen, 2 * cw)) \ cset : cset' = cset \cup {g}
              /\ UNCHANGED <<cw, tw, tset, dset>>
           \/ /\ Cardinality(tset) < KT
              /\ \E g \in Pool(TAlpha, 1, Min2(MaxTLen, 2 * tw)) \ tset : tset' = tset \cup {g}
              /\ UNCHANGED <<cw, tw, cset, dset>>
           \/ /\ Cardinality(dset) < KD
              /\ \E g \in Pool(DAlpha, 1, MaxDLen) \ dset : dset' = dset \cup {g}
              /\ UNCHANGED <<cw, tw, cset, tset>>

\* weights: a fingerprint of (kind, entry index, slot) with mixed signs, inside the i16 range
FP(kind, i, k) == (IF (i + k + kind) % 2 = 0 THEN 1 ELSE -1) * (kind * 1000 + i * 97 + k * 7 + 1)

(* Cancelling weights (WMode = 1): an entry that has a proper suffix in its own set votes exactly against the sum of   *)
(* those suffixes on every boundary it covers, so that occurrences of the longer entry contribute nothing through the    *)
(* pair (implementations that merge suffix weights into the longer entry obtain an all-zero merged vector); entries   *)
(* without a suffix in the set keep fingerprint weights, but only on the slots that EVERY entry of the set covers.      *)
(* A dictionary word additionally votes against the character n-grams it ends with, where their windows lie inside it. *)
ProperSuffixes(g, S) == {x \in S : Len(x) < Len(g) /\ SubSeq(g, Len(g) - Len(x) + 1, Len(g)) = x}
MaxLenIn(S) == IF S = {} THEN 0 ELSE Max({Len(x) : x \in S})
IdxIn(g, sq) == CHOOSE i \in 1..Len(sq) : sq[i] = g
RECURSIVE CancelNg(_, _, _, _, _)
CancelNg(g, S, sq, W, kind) ==
  LET n == 2 * W - Len(g) + 1
      common == 2 * W - MaxLenIn(S) + 1
      ps == ProperSuffixes(g, S)
  IN IF ps = {} THEN [k \in 1..n |-> IF k <= common THEN FP(kind, IdxIn(g, sq), k) ELSE 0]
     ELSE [k \in 1..n |-> 0 - SumFun([x \in ps |-> CancelNg(x, S, sq, W, kind)[k]], ps)]
RECURSIVE CancelDict(_, _, _, _, _, _)
CancelDict(g, D, dsq, C, csq, W) ==
  LET n == Len(g)
      pw == ProperSuffixes(g, D)
      pc == {x \in C : Len(x) <= n /\ SubSeq(g, n - Len(x) + 1, n) = x}
  IN IF pw = {} /\ pc = {} THEN [k \in 1..(n + 1) |-> FP(3, IdxIn(g, dsq), k)]
     ELSE [k \in 1..(n + 1) |->
             0 - SumFun([x \in pw |-> WeightAt(CancelDict(x, D, dsq, C, csq, W), k - (n - Len(x)))], pw)
               - SumFun([x \in pc |-> WeightAt(CancelNg(x, C, csq, W, 1), k - n + W)], pc)]

Model0 ==
  LET cs == SetToSeq(cset)  ts == SetToSeq(tset)  ds == SetToSeq(dset) IN
  [bias |-> 0, cw |-> cw, tw |-> tw,
   cng |-> [i \in 1..Len(cs) |-> [ng |-> cs[i], w |-> IF WMode = 1 THEN CancelNg(cs[i], cset, cs, cw, 1)
                                                      ELSE [k \in 1..(2 * cw - Len(cs[i]) + 1) |-> IF WMode = 2 /\ k <= cw THEN 0 ELSE FP(1, i, k)]]],
   tng |-> [i \in 1..Len(ts) |-> [ng |-> ts[i], w |-> IF WMode = 1 THEN CancelNg(ts[i], tset, ts, tw, 2)
                                                      ELSE [k \in 1..(2 * tw - Len(ts[i]) + 1) |-> IF WMode = 2 /\ k <= tw THEN 0 ELSE FP(2, i, k)]]],
   dict |-> [i \in 1..Len(ds) |-> [ng |-> ds[i], w |-> IF WMode = 1 THEN CancelDict(ds[i], dset, ds, cset, cs, cw)
                                                       ELSE [k \in 1..(Len(ds[i]) + 1) |-> IF WMode = 2 /\ k <= Len(ds[i]) THEN 0 ELSE FP(3, i, k)]]],
   tags |-> <<>>]

Texts == SeqsOf(TextAlpha, MinText, MaxText)
\* with ZeroHit the bias is chosen such that the first boundary of one probe text scores exactly 0
Probe == CHOOSE t \in Texts : Len(t) >= 2 /\ \A u \in Texts : Len(u) >= 2 => Len(t) >= Len(u)
Model == IF ZeroHit /\ \E t \in Texts : Len(t) >= 2
         THEN [Model0 EXCEPT !.bias = 0 - RefScore(Model0, Probe, 1)] ELSE [Model0 EXCEPT !.bias = 3]

Case == LET m == Model  tx == SetToSeq(Texts) IN
        [model |-> m, runs |-> [i \in 1..Len(tx) |-> [text |-> tx[i], expect |-> RefPredict(m, tx[i], FALSE)]]]

Emit == Total >= 1 => PrintT(<<"CASE", ToJson(Case)>>)
WF == WellFormed(Model)
=============================================================================
