------------------------------ MODULE VpTrainer ------------------------------
(* The trainer (properties C09-C12).                                                           *)
(*  cfg == [cw, cn, tw, tn, dict (sequence of words), dn (length bucket bound)]                  *)
(*  A feature is a record:  [k |-> "c", ng, rel]  character n-gram whose FIRST character is rel    *)
(*                          positions after the boundary's left character + 1 (rel = j - b)      *)
(*                          [k |-> "t", ng, rel]  the same over character types                 *)
(*                          [k |-> "d", len, side] dictionary word of length bucket len touching  *)
(*                          the boundary on side 0 = left (word starts here), 1 = inside,        *)
(*                          2 = right (word ends here)                                         *)
(*  The learner is an arbitrary function q from features to quantised weights plus a bias; the   *)
(*  specification never looks inside it.                                                       *)
EXTENDS VpModel

(* ------------------------------------------------------------------ boundary features (C10) *)
\* n-grams of length 1..N over seq s lying inside the window of W characters on each side of boundary b
NgFeatureSet(kind, s, b, W, N) ==
  {[k |-> kind, ng |-> SubSeq(s, p[2] + 1, p[2] + p[1]), rel |-> p[2] - b] :
      p \in {q \in (1..N) \X (0..(Len(s) - 1)) :
                /\ q[2] >= b - W                         \* starts inside the window on the left
                /\ q[2] + q[1] <= Min2(Len(s), b + W)}}  \* ends inside the window / the sentence

\* occurrences of word w in text as <<start (0-based), end (exclusive)>>
WordOcc(w, text) == {<<e - Len(w), e>> : e \in Occ(w, text)}
Bucket(len, dn) == Min2(len, dn)

\* dictionary feature instances at boundary b: one per (word index, occurrence touching the boundary)
DictInst(cfg, text, b) ==
  UNION {{[i |-> i, occ |-> o,
           f |-> [k |-> "d", len |-> Bucket(o[2] - o[1], cfg.dn),
                  side |-> IF o[1] = b THEN 0 ELSE IF o[2] = b THEN 2 ELSE 1]] :
            o \in {x \in WordOcc(cfg.dict[i], text) : x[1] <= b /\ b <= x[2] /\ b >= 1 /\ b <= Len(text) - 1}} :
         i \in 1..Len(cfg.dict)}

\* the feature bag of boundary b as a set of [f, cnt]
FeatureBag(cfg, text, b) ==
  LET ng == NgFeatureSet("c", text, b, cfg.cw, cfg.cn) \cup NgFeatureSet("t", Types(text), b, cfg.tw, cfg.tn)
      di == DictInst(cfg, text, b)
      df == {x.f : x \in di}
  IN {[f |-> f, cnt |-> 1] : f \in ng} \cup {[f |-> f, cnt |-> Cardinality({x \in di : x.f = f})] : f \in df}

\* the examples a sentence contributes: one per ANNOTATED boundary, labelled by the annotation
Examples(cfg, sent) ==
  {[b |-> b, label |-> sent.bnd[b], feats |-> FeatureBag(cfg, sent.text, b)] :
     b \in {x \in 1..Len(sent.bnd) : sent.bnd[x] # LU}}

(* ------------------------------------------------------------------ the trained model's function (C09) *)
\* q: sequence of [f, q]; weight of feature f (0 when the learner never saw it)
QOf(q, f) == LET ids == {i \in 1..Len(q) : q[i].f = f} IN IF ids = {} THEN 0 ELSE q[CHOOSE i \in ids : TRUE].q
TrainedScore(cfg, q, qbias, text, b) ==
  LET bag == FeatureBag(cfg, text, b) IN
  qbias + SumFun([x \in bag |-> x.cnt * QOf(q, x.f)], bag)

\* layout of the stored vectors: every n-gram covers exactly the positions of its OWN window
LayoutOk(m) ==
  /\ \A i \in 1..Len(m.cng) : Len(m.cng[i].w) = 2 * m.cw - Len(m.cng[i].ng) + 1
  /\ \A i \in 1..Len(m.tng) : Len(m.tng[i].w) = 2 * m.tw - Len(m.tng[i].ng) + 1
  /\ \A i \in 1..Len(m.dict) : Len(m.dict[i].w) = Len(m.dict[i].ng) + 1

(* ------------------------------------------------------------------ tag features and inventory (C12) *)
\* tag features of token <<s, e>> (0-based start, exclusive end): n-grams of length (e-s)+m, 1 <= m <= N,
\* covering the token; rel = how far the n-gram extends beyond the token's last character
TagFeatureSet(kind, s, tok, N) ==
  {[k |-> kind, ng |-> SubSeq(s, p[2] + 1, p[2] + (tok[2] - tok[1]) + p[1]), rel |-> p[2] + (tok[2] - tok[1]) + p[1] - tok[2]] :
     p \in {q \in (1..N) \X (0..(Len(s) - 1)) :
               /\ q[2] <= tok[1]
               /\ q[2] + (tok[2] - tok[1]) + q[1] >= tok[2]
               /\ q[2] + (tok[2] - tok[1]) + q[1] <= Len(s)}}
TagFeatures(cfg, text, tok) == TagFeatureSet("c", text, tok, cfg.cn) \cup TagFeatureSet("t", Types(text), tok, cfg.tn)

\* tokens of a tagged sentence with their tag rows (sentences without tag categories contribute nothing)
TaggedTokens(sent) == IF sent.ntags = 0 THEN <<>> ELSE TokenRecords(sent)

\* distinct tags observed for `surf` in category j over a corpus (sequence of sentences)
SeenTags(corpus, surf, j) ==
  UNION {{t.tags[j] : t \in {TaggedTokens(corpus[i])[x] : x \in 1..Len(TaggedTokens(corpus[i]))} \cap
                              {y \in {TaggedTokens(corpus[i])[x] : x \in 1..Len(TaggedTokens(corpus[i]))} :
                                   y.surf = surf /\ j <= Len(y.tags) /\ y.tags[j] # <<>>}} : i \in 1..Len(corpus)}
CorpusSurfaces(corpus) ==
  UNION {{TaggedTokens(corpus[i])[x].surf : x \in 1..Len(TaggedTokens(corpus[i]))} : i \in 1..Len(corpus)}
NCats(corpus, surf) ==
  LET S == UNION {{Len(TaggedTokens(corpus[i])[x].tags) : x \in {y \in 1..Len(TaggedTokens(corpus[i])) : TaggedTokens(corpus[i])[y].surf = surf}} : i \in 1..Len(corpus)}
  IN IF S = {} THEN 0 ELSE Max(S)
\* the inventory: for every token seen with tag categories, per category the SET of distinct tags
Inventory(corpus) ==
  [surf \in CorpusSurfaces(corpus) |-> [j \in 1..NCats(corpus, surf) |-> SeenTags(corpus, surf, j)]]

\* classifier score of candidate class c (index in the model's candidate list) of category j
TagTrainedScore(cfg, tq, surf, j, c, text, tok) ==
  LET fs == TagFeatures(cfg, text, tok)
      Val(f) == LET ids == {i \in 1..Len(tq) : tq[i].token = surf /\ tq[i].cat = j - 1 /\ tq[i].cls = c - 1 /\ tq[i].f = f} IN
                IF ids = {} THEN 0 ELSE tq[CHOOSE i \in ids : TRUE].q
  IN Val([k |-> "bias"]) + SumFun([f \in fs |-> Val(f)], fs)
=============================================================================
