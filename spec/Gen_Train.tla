------------------------------- MODULE Gen_Train -------------------------------
(* Case generator (S->I) for C10: for every training configuration of the family (window and      *)
(* n-gram sizes including 0 and n > window, dictionary subsets, length buckets) the expected       *)
(* examples of EVERY sentence over Alphabet up to MaxN characters with EVERY label vector in       *)
(* {N, W, U}: one example per annotated boundary, labelled by the annotation, with the feature bag. *)
(* The sentences reach the trainer through the partial-annotation format (the spec's writer).      *)
EXTENDS VpTrainer, VpFormats, Json
CONSTANTS CWs, CNs, TWs, TNs, DictSel, DNs, Alphabet, MaxN, Couple
VARIABLES cw, cn, tw, tn, dsel, dn, phase

DictPool == << <<97>>, <<97, 97>>, <<97, 12354>>, <<12354, 97, 97>> >>
Init == /\ cw \in CWs /\ cn \in CNs /\ tw \in TWs /\ tn \in TNs
        /\ (Couple => (tw = (cw + 1) % 3 /\ tn = (cn + 2) % 4))
        /\ dsel \in DictSel /\ dn \in DNs /\ phase = 0
Next == phase = 0 /\ phase' = 1 /\ UNCHANGED <<cw, cn, tw, tn, dsel, dn>>

\* dictionary subsets are selected by a bit mask over DictPool
Bit(mask, i) == (mask \div (2 ^ (i - 1))) % 2 = 1
DictSeq == LET ids == {i \in 1..Len(DictPool) : Bit(dsel, i)} IN
           [k \in 1..Cardinality(ids) |-> DictPool[SortedSeq(ids)[k]]]
Cfg == [cw |-> cw, cn |-> cn, tw |-> tw, tn |-> tn, dict |-> DictSeq, dn |-> dn]

Sents == SetToSeq(UNION {{[text |-> t, bnd |-> b, ntags |-> 0, tags |-> [i \in 1..n |-> <<>>]] :
                           t \in [1..n -> Alphabet], b \in [1..(n - 1) -> Labels]} : n \in 1..MaxN})
ExOut(sent) == {[b |-> e.b, label |-> e.label, feats |-> {x.f @@ [cnt |-> x.cnt] : x \in e.feats}] : e \in Examples(Cfg, sent)}
Emit == phase = 1 =>
  PrintT(<<"CASE", ToJson([cfg |-> Cfg, sents |-> [i \in 1..Len(Sents) |->
                              [s |-> WritePartial(Sents[i]), nann |-> Cardinality({b \in 1..Len(Sents[i].bnd) : Sents[i].bnd[b] # LU}),
                               ex |-> ExOut(Sents[i])]]])>>)
\* design-level facts about the specification's feature extraction
Facts == phase = 1 => \A i \in 1..Len(Sents) : LET s == Sents[i] IN
   /\ Cardinality(Examples(Cfg, s)) = Cardinality({b \in 1..Len(s.bnd) : s.bnd[b] # LU})
   /\ \A e \in Examples(Cfg, s) : \A x \in e.feats :
        /\ (x.f.k = "c" => (Len(x.f.ng) <= cn /\ x.f.rel >= 0 - cw /\ x.f.rel + Len(x.f.ng) <= cw))
        /\ (x.f.k = "t" => (Len(x.f.ng) <= tn /\ x.f.rel >= 0 - tw /\ x.f.rel + Len(x.f.ng) <= tw))
        /\ (x.f.k = "d" => x.f.len <= dn)
=============================================================================
