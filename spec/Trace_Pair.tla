------------------------------ MODULE Trace_Pair ------------------------------
(* I->S validation of the relational properties C13 (cargo features) and C14 (serialised       *)
(* predictor): each event carries the observations of the same history made through two        *)
(* variants of the implementation (two builds / original and deserialised predictor).  The     *)
(* specification has one semantics for all variants, so the observations must coincide; for    *)
(* C14 the bytes reported after the predictor must be exactly the trailing bytes appended.     *)
EXTENDS VpBase, Json, IOUtils
CONSTANT Chains
Rec == ndJsonDeserialize(IOEnv.TRACE)
VARIABLES k, l
Init == k \in 1..Chains /\ l = k
Next == l + Chains <= Len(Rec) /\ l' = l + Chains /\ k' = k

Accept(e) ==
  CASE e.ev = "pair" -> e.ok /\ e.a = e.b
    [] e.ev = "serde" -> e.ok /\ e.a = e.b /\ e.rest = e.trail     \* RestIsTrailing
    [] OTHER -> FALSE
Check == l <= Len(Rec) => (Accept(Rec[l]) \/ PrintT(<<"REJECT", ToJson([l |-> l, id |-> Rec[l].id])>>))
=============================================================================
