----------------------------- MODULE VpLifecycle -----------------------------
(* Life-cycle of ONE Sentence object across a history of API calls (C05 histories, C08).       *)
(* State: what the object holds -- text, labels, tag count, tag rows, scores, and the link to   *)
(* the predictor of the last prediction (used by fill_tags).  Every operation of the public     *)
(* API is one operator with explicit frame conditions (which fields it writes, which it        *)
(* leaves alone).  ApplyOp is used by the design-level model (MC_Lifecycle), by the history     *)
(* generator and by trace validation of recorded random histories.                            *)
(* Operations are records shaped exactly like the harness' JSON operations.                    *)
EXTENDS VpFormats, VpModel, VpFilters

\* preds: sequence of [model, tags (BOOLEAN), store (BOOLEAN)]  (a constant of each run)

MkState(text, bnd, ntags, tags, scores, plink) ==
  [text |-> text, bnd |-> bnd, ntags |-> ntags, tags |-> tags, scores |-> scores, plink |-> plink]

EmptyRowsN(n, k) == [i \in 1..n |-> [j \in 1..k |-> <<>>]]

DefaultState == MkState(<<SP>>, <<>>, 0, <<<<>>>>, <<>>, 0)

FromParse(r) == MkState(r.text, r.bnd, r.ntags, r.tags, <<>>, 0)

ParseBy(fmt, s) == IF fmt = "raw" THEN ParseRaw(s) ELSE IF fmt = "tok" THEN ParseTokenized(s) ELSE ParsePartial(s)

\* result of one operation: [st |-> new state, res |-> "ok" | "err"]
Upd(st, fmt, s) == LET r == ParseBy(fmt, s) IN
                   IF r.res = "ok" THEN [st |-> FromParse(r), res |-> "ok"]
                   ELSE [st |-> DefaultState, res |-> "err"]              \* a failed update leaves the default sentence
New(st, fmt, s) == LET r == ParseBy(fmt, s) IN
                   IF r.res = "ok" THEN [st |-> FromParse(r), res |-> "ok"]
                   ELSE [st |-> st, res |-> "err"]                        \* a failed constructor creates nothing

ResetTags(st, k) == [st EXCEPT !.ntags = k, !.tags = EmptyRowsN(Len(st.text), k)]

\* predict: writes scores, labels and the predictor link; tags and tag count are left alone
Predict(st, preds, p) ==
  LET m == preds[p].model IN
  [st EXCEPT !.scores = RefScores(m, st.text), !.bnd = RefLabels(m, st.text), !.plink = p]

\* fill_tags: no-op without a linked predictor or when the predictor has no tag category;
\* otherwise rewrites tag count and all tag rows from the CURRENT labels
FillEnabled(st, preds) == IF st.plink = 0 THEN TRUE ELSE preds[st.plink].tags     \* documented panic otherwise
FillTags(st, preds) ==
  IF st.plink = 0 THEN st
  ELSE LET m == preds[st.plink].model IN
       IF ModelNTags(m) = 0 THEN st
       ELSE [st EXCEPT !.ntags = ModelNTags(m), !.tags = RefTagRows(m, st.text, st.bnd)]

SetBnd(st, v) == [st EXCEPT !.bnd = [i \in 1..Len(st.bnd) |-> IF i <= Len(v) THEN v[i] ELSE @[i]]]

Filter(st, f) == [st EXCEPT !.bnd = FilterBnd(f, st.text, st.bnd)]
FilterP(st, rules) == [st EXCEPT !.tags = PatternTag(rules, st)]

ApplyOp(st, preds, op) ==
  CASE op.op = "up_raw"  -> Upd(st, "raw", op.s)
    [] op.op = "up_tok"  -> Upd(st, "tok", op.s)
    [] op.op = "up_part" -> Upd(st, "part", op.s)
    [] op.op = "new_raw"  -> New(st, "raw", op.s)
    [] op.op = "new_tok"  -> New(st, "tok", op.s)
    [] op.op = "new_part" -> New(st, "part", op.s)
    [] op.op = "reset_tags" -> [st |-> ResetTags(st, op.k), res |-> "ok"]
    [] op.op = "predict" -> [st |-> Predict(st, preds, op.p + 1), res |-> "ok"]
    [] op.op = "fill_tags" -> [st |-> FillTags(st, preds), res |-> "ok"]
    [] op.op = "set_bnd" -> [st |-> SetBnd(st, op.v), res |-> "ok"]
    [] op.op = "filter" -> [st |-> IF op.f = "P" THEN FilterP(st, op.rules) ELSE Filter(st, op.f), res |-> "ok"]

OpEnabled(st, preds, op) == IF op.op = "fill_tags" THEN FillEnabled(st, preds) ELSE TRUE

\* the observable projection (what the accessors, the iterator and the writers show)
Obs(st, res) ==
  [res |-> res, text |-> st.text, types |-> Types(st.text), bnd |-> st.bnd, ntags |-> st.ntags, tags |-> st.tags,
   scores |-> st.scores, tokens |-> TokenRecords(st),
   \* the two writers (which clear the caller's buffer first): the lines of the CURRENT labels and tags, whatever was predicted before
   wtok |-> WriteTokenized(st), wpart |-> WritePartial(st)]

(* ---- invariants of the design ---- *)
Shape(st) ==
  /\ Len(st.text) >= 1
  /\ Len(st.bnd) = Len(st.text) - 1
  /\ Len(st.tags) = Len(st.text)
  /\ \A i \in 1..Len(st.tags) : Len(st.tags[i]) = st.ntags
  /\ (st.scores = <<>> \/ Len(st.scores) = Len(st.bnd))
  /\ \A i \in 1..Len(st.text) : st.text[i] # NUL

\* what a fresh sentence shows after update_raw(x); predict(p); [fill_tags]
Fresh(preds, x, p, fill) ==
  LET s1 == Upd(DefaultState, "raw", x).st
      s2 == Predict(s1, preds, p)
      s3 == IF fill THEN FillTags(s2, preds) ELSE s2
  IN Obs(s3, "ok")
=============================================================================
