------------------------------ MODULE Gen_Filter ------------------------------
(* Case generator and design-level check for the sentence filters (C15): every sentence with a   *)
(* text over Alphabet up to MaxN characters and every label vector over LabelSet; for every       *)
(* filter of Filters the expected label vector.  TLC also checks the meta-properties of C15 on    *)
(* the specification (only rule boundaries change, idempotence).                               *)
EXTENDS VpFilters, Json
CONSTANTS Alphabet, LabelSet, MaxN, Filters
VARIABLES text, bnd
Init == text = <<>> /\ bnd = <<>>
Next == /\ Len(text) < MaxN
        /\ \E c \in Alphabet :
             IF text = <<>> THEN text' = <<c>> /\ bnd' = <<>>
             ELSE \E x \in LabelSet : text' = Append(text, c) /\ bnd' = Append(bnd, x)
FSeq == SetToSeq(Filters)
Emit == text # <<>> =>
   PrintT(<<"CASE", ToJson([text |-> text, types |-> Types(text), bnd |-> bnd,
                            exp |-> [i \in 1..Len(FSeq) |-> [f |-> FSeq[i], bnd |-> FilterBnd(FSeq[i], text, bnd)]]])>>)
Meta == text # <<>> => \A f \in Filters : OnlyRuleBoundariesChange(f, text, bnd) /\ Idempotent(f, text, bnd)
\* the rule itself, stated independently of FilterBnd, for the two simple filters
RuleExact == text # <<>> => \A f \in Filters : \A i \in 1..Len(bnd) :
   LET nb == FilterBnd(f, text, bnd) IN
   IF f = "L" THEN (nb[i] # bnd[i] => (IsLB(text[i]) \/ IsLB(text[i + 1])))
   ELSE IF f = "G" THEN TRUE
   ELSE (nb[i] # bnd[i] => (CharType(text[i]) = TypeOfLetter(f) /\ CharType(text[i + 1]) = TypeOfLetter(f)))
=============================================================================
