------------------------------ MODULE Gen_Tantivy ------------------------------
(* Case generator (S->I) for the Tantivy adapter (C16): small models x wsconst strings x texts    *)
(* with half-width characters (normalised before prediction), CR/LF, multi-byte characters and    *)
(* the empty text; expected token stream by VpTantivy!TantivyTokens.                            *)
EXTENDS VpTantivy, Json
CONSTANTS TextAlpha, MaxText, WsLetters, MaxWs, ModelIds
VARIABLES mid, ws

\* models keyed on NORMALISED characters: a -> ａ (65345), 1 -> １ (65297), '-' -> − (8722)
MModel(i) ==
  CASE i = 1 -> [bias |-> -1, cw |-> 1, tw |-> 1, cng |-> << [ng |-> <<65345>>, w |-> <<5, -4>>] >>,
                 tng |-> <<>>, dict |-> <<>>, tags |-> <<>>]
    [] i = 2 -> [bias |-> 2, cw |-> 2, tw |-> 1, cng |-> << [ng |-> <<97>>, w |-> <<-50, -50, -50, -50>>], [ng |-> <<12354, 65345>>, w |-> <<3, -9, 4>>] >>,
                 tng |-> << [ng |-> <<2>>, w |-> <<-3, 1>>], [ng |-> <<1, 2>>, w |-> <<-7>>] >>,
                 dict |-> << [ng |-> <<65297, 8722>>, w |-> <<4, -6, 4>>] >>, tags |-> <<>>]
    \* keyed on ー (12540), the normal form of the NON-ASCII table sources － (65293) and ― (8213)
    [] i = 4 -> [bias |-> 3, cw |-> 1, tw |-> 1, cng |-> << [ng |-> <<12540>>, w |-> <<-9, -9>>] >>,
                 tng |-> <<>>, dict |-> << [ng |-> <<12354, 12540>>, w |-> <<1, -20, 1>>] >>, tags |-> <<>>]
    [] i = 3 -> [bias |-> 1, cw |-> 1, tw |-> 2, cng |-> <<>>, tng |-> << [ng |-> <<6>>, w |-> <<-2, 0, -2, 0>>] >>,
                 dict |-> << [ng |-> <<28450, 28450>>, w |-> <<2, -8, 2>>] >>, tags |-> <<>>]

Init == mid \in ModelIds /\ ws = <<>>
Next == Len(ws) < MaxWs /\ \E c \in WsLetters : ws' = Append(ws, c) /\ UNCHANGED mid
Texts == SetToSeq(SeqsOf(TextAlpha, 0, MaxText))
Case == [model |-> MModel(mid), wsconst |-> ws,
         runs |-> [i \in 1..Len(Texts) |-> [text |-> Texts[i], tokens |-> TantivyTokens(MModel(mid), Texts[i], ws)]]]
Emit == PrintT(<<"CASE", ToJson(Case)>>)
Laws == \A i \in 1..Len(Texts) : Tiles(Texts[i], TantivyTokens(MModel(mid), Texts[i], ws))
=============================================================================
