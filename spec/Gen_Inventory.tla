----------------------------- MODULE Gen_Inventory -----------------------------
(* Expected tag inventories for C12.  Input: corpora (sequences of tokenized / partially          *)
(* annotated lines plus tag-dictionary lines), one per line of the file named by env CASES.       *)
(* TLC parses every line with the specification's readers and prints, per corpus, the inventory:   *)
(* for every token that occurs with tag categories in the corpus, per category the set of          *)
(* distinct tags observed; tokens that only appear in the tag dictionary get the dictionary's      *)
(* tags (first entry of the token).                                                            *)
EXTENDS VpTrainer, VpFormats, Json, IOUtils
CONSTANT Chains
Cases == ndJsonDeserialize(IOEnv.CASES)
VARIABLES k, l
Init == k \in 1..Chains /\ l = k
Next == l + Chains <= Len(Cases) /\ l' = l + Chains /\ k' = k

ParseLine(x) == IF x.fmt = "tok" THEN ParseTokenized(x.s) ELSE ParsePartial(x.s)
Corpus(c) == [i \in 1..Len(c.corpus) |-> ParseLine(c.corpus[i])]
Dict(c) == [i \in 1..Len(c.tagdict) |-> ParseLine(c.tagdict[i])]

\* first entry of a surface in the dictionary (sentence order, token order)
DictEntries(d) == Flatten([i \in 1..Len(d) |-> TokenRecords(d[i])])
DictFirst(d, surf) == LET es == DictEntries(d)  ids == {i \in 1..Len(es) : es[i].surf = surf} IN es[Min(ids)]
DictOnly(c) == {surf \in {DictEntries(Dict(c))[i].surf : i \in 1..Len(DictEntries(Dict(c)))} :
                  /\ surf \notin CorpusSurfaces(Corpus(c))
                  /\ \E j \in 1..Len(DictFirst(Dict(c), surf).tags) : DictFirst(Dict(c), surf).tags[j] # <<>>}

InvOut(c) ==
  LET co == Corpus(c)  inv == Inventory(co) IN
  SetToSeq({[token |-> s, cats |-> [j \in 1..Len(inv[s]) |-> SetToSeq(inv[s][j])]] : s \in DOMAIN inv}
     \cup {[token |-> s, cats |-> [j \in 1..Len(DictFirst(Dict(c), s).tags) |->
                                     IF DictFirst(Dict(c), s).tags[j] = <<>> THEN <<>> ELSE <<DictFirst(Dict(c), s).tags[j]>>]] :
           s \in DictOnly(c)})
AllParsed(c) == (\A i \in 1..Len(c.corpus) : ParseLine(c.corpus[i]).res = "ok") /\ (\A i \in 1..Len(c.tagdict) : ParseLine(c.tagdict[i]).res = "ok")
Emit == l <= Len(Cases) => PrintT(<<"CASE", ToJson([id |-> Cases[l].id, parsed |-> AllParsed(Cases[l]),
                                                    inv |-> IF AllParsed(Cases[l]) THEN InvOut(Cases[l]) ELSE <<>>])>>)
=============================================================================
