------------------------------- MODULE Gen_PTag -------------------------------
(* Case generator for the pattern-match tagger (C15): sentences over {a, b} with every label     *)
(* vector, tag rows partly present, and two rule tables (rules shorter / longer than the tag      *)
(* count, rules with absent entries).  Expected tag rows by PatternTag; TLC checks on the spec    *)
(* that only absent tags of tokens with a rule change, and idempotence.                         *)
EXTENDS VpFilters, Json
CONSTANTS MaxN, NTagsSet
VARIABLES sent
TX == <<88>>  TY == <<89>>  TZ == <<90>>  TQ == <<81>>
Rules1 == << [surf |-> <<97>>, tags |-> <<TX, TY>>], [surf |-> <<97, 98>>, tags |-> <<TZ>>] >>
Rules2 == << [surf |-> <<97>>, tags |-> <<<<>>, TY, TZ>>], [surf |-> <<98>>, tags |-> <<>>] >>
RowPool(k) == IF k = 0 THEN {<<>>} ELSE IF k = 1 THEN {<<<<>>>>, <<TQ>>} ELSE {<<<<>>, <<>>>>, <<TQ, <<>>>>, <<<<>>, TQ>>}
Init == \E k \in NTagsSet : sent = [text |-> <<>>, bnd |-> <<>>, ntags |-> k, tags |-> <<>>]
Next == /\ Len(sent.text) < MaxN
        /\ \E c \in {97, 98}, r \in RowPool(sent.ntags) :
             IF sent.text = <<>> THEN sent' = [sent EXCEPT !.text = <<c>>, !.tags = <<r>>]
             ELSE \E x \in Labels : sent' = [sent EXCEPT !.text = Append(@, c), !.bnd = Append(@, x), !.tags = Append(@, r)]
After(rules) == [sent EXCEPT !.tags = PatternTag(rules, sent)]
Emit == sent.text # <<>> =>
   PrintT(<<"CASE", ToJson([sent |-> sent, r1 |-> Rules1, e1 |-> PatternTag(Rules1, sent), r2 |-> Rules2, e2 |-> PatternTag(Rules2, sent)])>>)
Meta == sent.text # <<>> => \A rules \in {Rules1, Rules2} :
   /\ PatternTag(rules, After(rules)) = After(rules).tags                         \* idempotent
   /\ \A p \in 1..Len(sent.text) : \A j \in 1..sent.ntags :
        sent.tags[p][j] # <<>> => PatternTag(rules, sent)[p][j] = sent.tags[p][j]   \* present tags are kept
=============================================================================
