---------------------------- MODULE Gen_FilterLong ----------------------------
(* Case generator for the sentence filters (C15) on LONG sentences: periodic texts (every period  *)
(* of 1..MaxPeriod characters over Alphabet) of the lengths in Lens (around 16 and 32 characters,   *)
(* where block-wise implementations have their seams) x label vectors (all word boundaries, all     *)
(* unknown, alternating).  Expected label vectors by VpFilters, meta-properties as in Gen_Filter.   *)
EXTENDS VpFilters, Json
CONSTANTS Alphabet, MaxPeriod, Lens, Filters
VARIABLES pat, n, lab
Init == pat \in SeqsOf(Alphabet, 1, MaxPeriod) /\ n \in Lens /\ lab \in 1..3
Next == FALSE /\ UNCHANGED <<pat, n, lab>>
text == [i \in 1..n |-> pat[((i - 1) % Len(pat)) + 1]]
bnd == [i \in 1..(n - 1) |-> IF lab = 1 THEN LW ELSE IF lab = 2 THEN LU ELSE (IF i % 2 = 0 THEN LW ELSE LU)]
FSeq == SetToSeq(Filters)
Emit == PrintT(<<"CASE", ToJson([text |-> text, types |-> Types(text), bnd |-> bnd,
                            exp |-> [i \in 1..Len(FSeq) |-> [f |-> FSeq[i], bnd |-> FilterBnd(FSeq[i], text, bnd)]]])>>)
Meta == \A f \in Filters : OnlyRuleBoundariesChange(f, text, bnd) /\ Idempotent(f, text, bnd)
=============================================================================
