----------------------------- MODULE VpScorerImpl -----------------------------
(* Layer I: the scoring algorithm as the code performs it (properties C01, C13, C18).            *)
(*  - entries with equal strings are added into one positional weight (offset + vector);          *)
(*  - every pattern absorbs the weights of its longest proper suffix that is also a pattern        *)
(*    (suffix merge), so that reporting only the LONGEST pattern at each end position suffices;     *)
(*  - weights are added into a buffer padded with 7 slots on each side; vectors of at most 8        *)
(*    entries use a fixed 8-slot layout and need their whole range inside the buffer;               *)
(*  - type n-grams with window <= 3 are scored through a table indexed by the rolling id of the      *)
(*    2*W character types around the boundary;                                                    *)
(*  - without the character-wise automaton, patterns are matched on UTF-8 bytes and match ends are    *)
(*    mapped back to character positions.                                                        *)
(* MC_ScorerImpl checks ImplEqualsRef, IndicesInRange and MatchEndsOnCharBoundary.                 *)
EXTENDS VpModel

PAD == 7
FIXED == 8

PWAdd(a, b) ==
  LET no == Min2(a.off, b.off)  sa == a.off - no  sb == b.off - no
      sz == Max2(sa + Len(a.w), sb + Len(b.w))
  IN [off |-> no,
      w |-> [i \in 1..sz |-> (IF i > sa /\ i <= sa + Len(a.w) THEN a.w[i - sa] ELSE 0)
                           + (IF i > sb /\ i <= sb + Len(b.w) THEN b.w[i - sb] ELSE 0)]]
ZeroPW == [off |-> 0, w |-> <<>>]
PWSum(S) == \* sum of a non-empty finite set of positional weights given as a sequence
  FoldLeft(LAMBDA acc, x: IF acc = ZeroPW THEN x ELSE PWAdd(acc, x), ZeroPW, S)

\* pattern table: ngrams (window W) and words
Patterns(ngs, words) == {ngs[i].ng : i \in 1..Len(ngs)} \cup {words[i].ng : i \in 1..Len(words)}
Own(ngs, words, W, p) ==
  PWSum(SelectSeq([i \in 1..Len(ngs) |-> IF ngs[i].ng = p THEN [off |-> 0 - W, w |-> ngs[i].w] ELSE ZeroPW], LAMBDA x: x # ZeroPW)
        \o SelectSeq([i \in 1..Len(words) |-> IF words[i].ng = p THEN [off |-> 0 - Len(p), w |-> words[i].w] ELSE ZeroPW], LAMBDA x: x # ZeroPW))

ProperSuffixPatterns(P, p) == {q \in P : Len(q) < Len(p) /\ IsSuffixOf(q, p)}
LongestOf(S) == CHOOSE q \in S : \A r \in S : Len(r) <= Len(q)

RECURSIVE Merged(_, _, _, _)
Merged(ngs, words, W, p) ==
  LET P == Patterns(ngs, words)  S == ProperSuffixPatterns(P, p) IN
  IF S = {} THEN Own(ngs, words, W, p) ELSE PWAdd(Own(ngs, words, W, p), Merged(ngs, words, W, LongestOf(S)))
\* the mutant without suffix merge
Unmerged(ngs, words, W, p) == Own(ngs, words, W, p)

\* longest pattern that ends at position e of s (no-suffix iteration reports only this one)
MatchAt(P, s, e) == LET S == {p \in P : Len(p) <= e /\ SubSeq(s, e - Len(p) + 1, e) = p} IN
                    IF S = {} THEN <<>> ELSE LongestOf(S)

\* adding one positional weight for a match ending at character e (1-based) into the 0-based buffer
BufLen(n) == 2 * PAD + n - 1
Pos(e, pw) == e + PAD - 1 + pw.off
IsFixed(pw) == Len(pw.w) <= FIXED
InRange(n, e, pw) == IsFixed(pw) => (Pos(e, pw) >= 0 /\ Pos(e, pw) + FIXED <= BufLen(n))
AddPW(buf, e, pw) ==
  LET pos == Pos(e, pw) IN
  [i \in 1..Len(buf) |->   \* i is 1-based, slot index i - 1
     LET k == (i - 1) - pos + 1 IN    \* 1-based index into pw.w
     buf[i] + (IF k >= 1 /\ k <= Len(pw.w) THEN pw.w[k] ELSE 0)]

\* scores of one scorer (ngrams + words over sequence s with window W), starting from `init`
ImplAdd(ngs, words, W, s, init, merge) ==
  LET P == Patterns(ngs, words) IN
  FoldLeft(LAMBDA buf, e: LET p == MatchAt(P, s, e) IN
                           IF p = <<>> THEN buf
                           ELSE AddPW(buf, e, IF merge THEN Merged(ngs, words, W, p) ELSE Unmerged(ngs, words, W, p)),
           init, [e \in 1..Len(s) |-> e])
AllInRange(ngs, words, W, s) ==
  LET P == Patterns(ngs, words) IN
  \A e \in 1..Len(s) : LET p == MatchAt(P, s, e) IN p # <<>> => InRange(Len(s), e, Merged(ngs, words, W, p))

\* --- type scores through the cached table (window <= 3)
TypeWindow(types, b, W) == [k \in 1..(2 * W) |-> LET pos == b - W + k IN IF pos >= 1 /\ pos <= Len(types) THEN types[pos] ELSE 0]
TableScore(tng, W, seq) ==
  SumSeq([i \in 1..Len(tng) |-> SumFun([e \in Occ(tng[i].ng, seq) |-> WeightAt(tng[i].w, 2 * W - e + 1)], Occ(tng[i].ng, seq))])
SeqId(seq) == FoldLeft(LAMBDA acc, t: acc * 8 + t, 0, seq)
\* rolling id while scanning the sentence: shift in the type of position i + W (0 beyond the end), keep 2*W digits
RECURSIVE Pow8(_)
Pow8(k) == IF k = 0 THEN 1 ELSE 8 * Pow8(k - 1)
Roll(id, t, W) == (id * 8 + t) % Pow8(2 * W)
TypeAt(types, i) == IF i >= 1 /\ i <= Len(types) THEN types[i] ELSE 0
RollingIdAt(types, b, W) == \* id after pre-loading W types and advancing to boundary b
  FoldLeft(LAMBDA id, i: Roll(id, TypeAt(types, i), W), 0, [i \in 1..(b + W) |-> i])

\* --- the whole predictor
ImplScores(m, text, useCache, merge) ==
  LET n == Len(text)
      b0 == [i \in 1..BufLen(n) |-> m.bias]
      b1 == IF m.cng = <<>> /\ m.dict = <<>> THEN b0 ELSE ImplAdd(m.cng, m.dict, m.cw, text, b0, merge)
      b2 == IF m.tng = <<>> THEN b1
            ELSE IF useCache /\ m.tw <= 3
                 THEN [i \in 1..BufLen(n) |-> b1[i] + (IF i > PAD /\ i <= PAD + n - 1
                                                       THEN TableScore(m.tng, m.tw, TypeWindow(Types(text), i - PAD, m.tw)) ELSE 0)]
                 ELSE ImplAdd(m.tng, <<>>, m.tw, Types(text), b1, merge)
  IN SubSeq(b2, PAD + 1, PAD + n - 1)

IndicesInRange(m, text) ==
  /\ AllInRange(m.cng, m.dict, m.cw, text)
  /\ (m.tng # <<>> => AllInRange(m.tng, <<>>, m.tw, Types(text)))
  /\ \A b \in 1..(Len(text) - 1) : m.tw <= 3 =>
        /\ RollingIdAt(Types(text), b, m.tw) = SeqId(TypeWindow(Types(text), b, m.tw))      \* the id addresses the right window
        /\ RollingIdAt(Types(text), b, m.tw) < Pow8(2 * m.tw)                                \* and lies inside the table

\* --- byte-wise matching
Utf8(c) == IF c < 128 THEN <<c>>
           ELSE IF c < 2048 THEN <<192 + (c \div 64), 128 + (c % 64)>>
           ELSE IF c < 65536 THEN <<224 + (c \div 4096), 128 + ((c \div 64) % 64), 128 + (c % 64)>>
           ELSE <<240 + (c \div 262144), 128 + ((c \div 4096) % 64), 128 + ((c \div 64) % 64), 128 + (c % 64)>>
Utf8Seq(s) == Flatten([i \in 1..Len(s) |-> Utf8(s[i])])
CharBoundaries(s) == {ByteOff(s, i) : i \in 0..Len(s)}
MatchEndsOnCharBoundary(p, text) ==
  \A e \in Occ(Utf8Seq(p), Utf8Seq(text)) :
     /\ e \in CharBoundaries(text)                                   \* the byte offset handed to the position map is a boundary
     /\ \E i \in Occ(p, text) : ByteOff(text, i) = e                  \* and it is the end of a character-level occurrence
=============================================================================
