------------------------------ MODULE VpTantivy ------------------------------
(* The Tantivy token stream (property C16, second half).  The adapter normalises the text,       *)
(* predicts on the normalised text, applies the line-break filter and the configured filters,     *)
(* and cuts the ORIGINAL text at the word boundaries.                                          *)
EXTENDS VpModel, VpFilters, VpNormalise

RECURSIVE ApplyFilters(_, _, _)
ApplyFilters(fs, text, bnd) == IF fs = <<>> THEN bnd ELSE ApplyFilters(Tail(fs), text, FilterBnd(Head(fs), text, bnd))

\* labels of the core pipeline on `text`: normalise, predict, line-break filter, configured filters
PipelineLabels(m, text, wsconst) ==
  LET nt == Normalise(text) IN ApplyFilters(<<"L">> \o wsconst, nt, RefLabels(m, nt))

\* tokens cut from the original text at the given labels (no unknown labels after prediction)
TokensAt(text, bnd) ==
  LET cuts == SortedSeq({0} \cup {i \in 1..Len(bnd) : bnd[i] = LW} \cup {Len(text)}) IN
  [k \in 1..(Len(cuts) - 1) |->
     [text |-> SubSeq(text, cuts[k] + 1, cuts[k + 1]), from |-> ByteOff(text, cuts[k]), to |-> ByteOff(text, cuts[k + 1]),
      pos |-> k - 1]]

TantivyTokens(m, text, wsconst) == IF text = <<>> THEN <<>> ELSE TokensAt(text, PipelineLabels(m, text, wsconst))

\* generic laws of C16 for any token list over a text
Tiles(text, toks) ==
  /\ (text = <<>> => toks = <<>>)
  /\ (text # <<>> =>
        /\ Len(toks) >= 1 /\ toks[1].from = 0 /\ toks[Len(toks)].to = ByteLen(text)
        /\ \A k \in 1..Len(toks) : toks[k].from < toks[k].to /\ toks[k].pos = k - 1
        /\ \A k \in 1..(Len(toks) - 1) : toks[k].to = toks[k + 1].from
        /\ \A k \in 1..Len(toks) : \E i \in 0..Len(text), j \in 0..Len(text) :
             i < j /\ toks[k].from = ByteOff(text, i) /\ toks[k].to = ByteOff(text, j) /\ toks[k].text = SubSeq(text, i + 1, j))
=============================================================================
