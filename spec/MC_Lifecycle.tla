----------------------------- MODULE MC_Lifecycle -----------------------------
(* Design-level model and history generator for C05 (histories) and C08.  TLC explores every   *)
(* history of API calls up to Depth over a pool of operations (successful and failing updates   *)
(* in the three formats, tag resets, three predictors, tag filling, hand-set labels, filters),  *)
(* checks Shape and HistoryIndependence in every reachable state, and prints each maximal       *)
(* history followed by the probe sequence, with the expected observable state after every call. *)
EXTENDS VpLifecycle, Json
CONSTANTS Depth, KeepNTagsMutant, EmitCases, PoolSel
VARIABLES st, hist, obs

TA == <<65>>  TB == <<66>>  TC == <<67>>  TD == <<68>>
MA == [bias |-> -3, cw |-> 2, tw |-> 2,
       cng |-> << [ng |-> <<97>>, w |-> <<4, -6, 9, -2>>], [ng |-> <<97, 98>>, w |-> <<-5, 11, 3>>], [ng |-> <<98>>, w |-> <<1, 2, -8, 5>>] >>,
       tng |-> << [ng |-> <<2, 3>>, w |-> <<7, -4, 6>>], [ng |-> <<2>>, w |-> <<-1, 3, -2, 1>>] >>,
       dict |-> << [ng |-> <<97, 98>>, w |-> <<6, -20, 8>>] >>,
       tags |-> << [token |-> <<97>>, cats |-> << <<TA, TB>>, <<TC>> >>,
                    cng |-> << [ng |-> <<97>>, tw |-> <<[rel |-> 0, w |-> <<3, -3>>]>>],
                               [ng |-> <<97, 98>>, tw |-> <<[rel |-> 1, w |-> <<-9, 9>>]>>] >>,
                    tng |-> << [ng |-> <<2, 2>>, tw |-> <<[rel |-> 0, w |-> <<5, 0>>]>>] >>,
                    bias |-> <<1, 2>>],
                   [token |-> <<98>>, cats |-> << <<TD>> >>, cng |-> <<>>, tng |-> <<>>, bias |-> <<>>] >>]
MB == [bias |-> 2, cw |-> 1, tw |-> 3,
       cng |-> << [ng |-> <<98>>, w |-> <<-7, 4>>] >>,
       tng |-> << [ng |-> <<2, 2>>, w |-> <<1, -9, 2, 3, -1>>] >>,
       dict |-> <<>>, tags |-> <<>>]
MC == [MB EXCEPT !.tags = << [token |-> <<97>>, cats |-> <<>>, cng |-> <<>>, tng |-> <<>>, bias |-> <<>>] >>]
\* a second tagging predictor that does NOT store candidate scores (different tag tables than MA)
MD == [MA EXCEPT !.bias = 4,
         !.tags = << [token |-> <<98>>, cats |-> << <<TA, TC>> >>,
                      cng |-> << [ng |-> <<97, 98>>, tw |-> <<[rel |-> 0, w |-> <<2, 5>>]>>] >>, tng |-> <<>>, bias |-> <<3, 1>>],
                     [token |-> <<97>>, cats |-> << <<TB, TD>>, <<TA, TB>> >>,
                      cng |-> << [ng |-> <<97>>, tw |-> <<[rel |-> 1, w |-> <<1, -1, 4, 2>>]>>] >>, tng |-> <<>>, bias |-> <<0, 0, 1, 0>>] >>]
Preds == << [model |-> MA, tags |-> TRUE, store |-> TRUE],
            [model |-> MB, tags |-> FALSE, store |-> FALSE],
            [model |-> MC, tags |-> TRUE, store |-> FALSE],
            [model |-> MD, tags |-> TRUE, store |-> FALSE] >>

OpsFull == {
  [op |-> "up_raw", s |-> <<97, 98>>], [op |-> "up_raw", s |-> <<97, 12354, 98>>], [op |-> "up_raw", s |-> <<>>],
  [op |-> "up_raw", s |-> <<97, 0>>], [op |-> "up_raw", s |-> <<97, 98, 97, 98, 97>>],   \* "ababa": 5 bytes like "aあb"
  [op |-> "up_tok", s |-> <<97, 47, 88, 32, 98, 47, 89>>], [op |-> "up_tok", s |-> <<97, 98>>],
  [op |-> "up_tok", s |-> <<97, 92, 32, 98>>], [op |-> "up_tok", s |-> <<32, 97>>],
  [op |-> "up_part", s |-> <<97, 124, 98, 45, 99, 32, 100>>], [op |-> "up_part", s |-> <<97, 47, 88, 124, 98, 47, 89, 47, 90>>],
  [op |-> "up_part", s |-> <<97, 45>>],
  [op |-> "reset_tags", k |-> 0], [op |-> "reset_tags", k |-> 2],
  [op |-> "predict", p |-> 0], [op |-> "predict", p |-> 1], [op |-> "predict", p |-> 2], [op |-> "predict", p |-> 3],
  [op |-> "fill_tags"],
  [op |-> "set_bnd", v |-> <<1, 2, 0>>],
  [op |-> "filter", f |-> "R"], [op |-> "filter", f |-> "L"] }
\* a smaller pool for deeper exploration
OpsSmall == {
  [op |-> "up_raw", s |-> <<97, 98>>], [op |-> "up_raw", s |-> <<>>],
  [op |-> "up_tok", s |-> <<97, 47, 88, 32, 98, 47, 89>>], [op |-> "up_part", s |-> <<97, 47, 88, 124, 98, 47, 89, 47, 90>>],
  [op |-> "up_part", s |-> <<97, 45>>],
  [op |-> "reset_tags", k |-> 2],
  [op |-> "predict", p |-> 0], [op |-> "predict", p |-> 1], [op |-> "predict", p |-> 2], [op |-> "predict", p |-> 3],
  [op |-> "fill_tags"], [op |-> "set_bnd", v |-> <<1, 2, 0>>] }
Pool == IF PoolSel = 1 THEN OpsFull ELSE OpsSmall

\* the mutant models the original update_raw, which cleared the tags but kept the tag count
Step(s, op) ==
  LET r == ApplyOp(s, Preds, op) IN
  IF KeepNTagsMutant /\ op.op = "up_raw" /\ r.res = "ok" THEN [r EXCEPT !.st.ntags = s.ntags] ELSE r

Init == st = DefaultState /\ hist = <<>> /\ obs = <<>>
Next == /\ Len(hist) < Depth
        /\ \E op \in Pool :
             /\ OpEnabled(st, Preds, op)
             /\ LET r == Step(st, op) IN
                /\ st' = r.st
                /\ hist' = Append(hist, op)
                /\ obs' = Append(obs, Obs(r.st, r.res))

ShapeInv == Shape(st)

\* probe sequences: update_raw(x); predict(p); [fill_tags]
ProbeTexts == {<<97, 97, 98>>, <<98, 97>>, <<97, 98, 97, 97, 98>>}
ProbeOps(x, p, fill) == <<[op |-> "up_raw", s |-> x], [op |-> "predict", p |-> p - 1]>> \o (IF fill THEN <<[op |-> "fill_tags"]>> ELSE <<>>)
RunOps(s, ops) == FoldLeft(LAMBDA acc, op: Step(acc, op).st, s, ops)
HistoryIndependence ==
  \A x \in ProbeTexts : \A p \in 1..Len(Preds) : \A fill \in {FALSE, TRUE} :
     (fill => Preds[p].tags) =>
        Obs(RunOps(st, ProbeOps(x, p, fill)), "ok") = Fresh(Preds, x, p, fill)

\* probe steps appended to every emitted history (on the same object), with expectations
Probe == ProbeOps(<<97, 97, 98>>, 1, TRUE) \o ProbeOps(<<98, 97>>, 2, FALSE) \o ProbeOps(<<97, 97, 98>>, 3, TRUE)
         \o ProbeOps(<<97, 98, 97, 97, 98>>, 4, TRUE) \o ProbeOps(<<98, 98, 97, 97, 97>>, 1, TRUE)
RECURSIVE ObsSeq(_, _)
ObsSeq(s, ops) == IF ops = <<>> THEN <<>>
                  ELSE LET r == Step(s, Head(ops)) IN <<Obs(r.st, r.res)>> \o ObsSeq(r.st, Tail(ops))

Emit == (EmitCases /\ Len(hist) = Depth) =>
          PrintT(<<"CASE", ToJson([ops |-> hist \o Probe, expect |-> obs \o ObsSeq(st, Probe)])>>)
EmitPreds == (EmitCases /\ hist = <<>>) => PrintT(<<"NOTE", ToJson([preds |-> Preds])>>)
=============================================================================
