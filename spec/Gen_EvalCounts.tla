----------------------------- MODULE Gen_EvalCounts -----------------------------
(* Expected counts of the evaluate tool (C20) for (reference, system) annotation pairs read from    *)
(* the file named by env CASES; the system annotations are the library pipeline's.                 *)
EXTENDS VpCli, Json, IOUtils
CONSTANT Chains
Cases == ndJsonDeserialize(IOEnv.CASES)
VARIABLES k, l
Init == k \in 1..Chains /\ l = k
Next == l + Chains <= Len(Cases) /\ l' = l + Chains /\ k' = k
Emit == l <= Len(Cases) => PrintT(<<"CASE", ToJson([id |-> Cases[l].id, char |-> CharCounts(Cases[l].pairs), word |-> WordCounts(Cases[l].pairs)])>>)
=============================================================================
