-------------------------------- MODULE Gen_Csv --------------------------------
(* C19, tool half: dictionaries over a CSV-hostile alphabet (comma, double quote, space, LF, CR,    *)
(* multi-byte), extreme weights and comments, for the dump -> replace round trip of                 *)
(* manipulate_model.  TLC enumerates the dictionaries; the round trip itself is judged by           *)
(* Trace_Pair (byte equality of the two models).                                                  *)
EXTENDS VpBase, Json, Integers
CONSTANTS Alphabet, MaxLen, CommentSel
WeightPool == {0, -1, 12345, 2147483647, (-2147483647) - 1, 16777217, 123456789, -33554433}
VARIABLES word, phase
Init == word = <<>> /\ phase = 0
Next == \/ phase = 0 /\ Len(word) < MaxLen /\ \E c \in Alphabet : word' = Append(word, c) /\ phase' = 0
        \/ phase = 0 /\ word # <<>> /\ phase' = 1 /\ UNCHANGED word
WSeq == SetToSeq(WeightPool)
Comments == << <<>>, <<34, 44, 10>>, <<12354, 32, 34, 34>>, <<13>> >>
\* a dictionary of three words derived from the enumerated one (itself, a prefix-extended and a fixed plain word)
Dict == LET w1 == word  w2 == <<120>> \o word  w3 == <<28450, 23383>> IN
        << [ng |-> w1, w |-> [k \in 1..(Len(w1) + 1) |-> WSeq[((k + Len(w1)) % Len(WSeq)) + 1]], c |-> Comments[(Len(w1) % 4) + 1]],
           [ng |-> w2, w |-> [k \in 1..(Len(w2) + 1) |-> WSeq[(k % Len(WSeq)) + 1]], c |-> Comments[CommentSel]],
           [ng |-> w3, w |-> <<0, -1, 12345>>, c |-> <<>>] >>
Emit == phase = 1 => PrintT(<<"CASE", ToJson([dict |-> Dict])>>)
=============================================================================
