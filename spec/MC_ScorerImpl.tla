---------------------------- MODULE MC_ScorerImpl ----------------------------
(* Design-level check of the implementation-shaped scorer over the model families of Gen_Score:   *)
(* for every model of the family and every text, the algorithm the code uses (suffix merge,         *)
(* longest-match-only iteration, padded buffer with fixed/variable layout, cached type table or     *)
(* automaton) computes exactly RefScores, every unchecked index is in range, and byte-wise          *)
(* matching only ends on character boundaries.  Merge = FALSE is the mutant without suffix merge.    *)
EXTENDS Gen_Score, VpScorerImpl
CONSTANT Merge
Tx == SeqsOf(TextAlpha, MinText, MaxText)
ImplEqualsRef == \A t \in Tx : \A c \in BOOLEAN : ImplScores(Model, t, c, Merge) = RefScores(Model, t)
InRangeInv == \A t \in Tx : IndicesInRange(Model, t)
ByteMatchInv == \A t \in Tx : \A i \in 1..Len(Model.cng) : MatchEndsOnCharBoundary(Model.cng[i].ng, t)
=============================================================================
