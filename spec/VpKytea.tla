------------------------------- MODULE VpKytea -------------------------------
(* Conversion of a KyTea word-segmentation model (property C17).                               *)
(* Abstract KyTea model:                                                                       *)
(*   [char_w, type_w, dict_n, bias,                                                             *)
(*    char_ngrams : Seq([ng, v]),   v = the feature vector stored in the file (at least            *)
(*    type_ngrams : Seq([ng, v]),       2*W - Len(ng) + 1 entries); type n-grams are strings over    *)
(*                                      the letters D R H T K O                                    *)
(*    n_dicts, dict_vec : Seq(Int),  3 * dict_n entries per dictionary: (left, inside, right) per   *)
(*                                      length bucket                                             *)
(*    words : Seq([w, mask])]        mask bit j set = the word belongs to dictionary j             *)
EXTENDS VpModel

TypeCode(c) == CASE c = 68 -> TDigit [] c = 82 -> TRoman [] c = 72 -> THira [] c = 84 -> TKata [] c = 75 -> TKanji [] c = 79 -> TOther

BitSet(mask, j) == (mask \div (2 ^ j)) % 2 = 1

WordWeights(km, wd) ==
  LET len == Len(wd.w)
      idx == Min2(len, km.dict_n) - 1                      \* length bucket (0-based)
      Sel(off) == SumSeq([j \in 1..km.n_dicts |-> IF BitSet(wd.mask, j - 1)
                                                   THEN km.dict_vec[3 * km.dict_n * (j - 1) + 3 * idx + off + 1] ELSE 0])
      left == Sel(0)  inside == Sel(1)  right == Sel(2)
  IN [k \in 1..(len + 1) |-> IF k = 1 THEN left ELSE IF k = len + 1 THEN right ELSE inside]

\* Some distributed KyTea models contain type n-grams with the invalid type code 0x04; such n-grams are skipped,
\* all others are converted.
ValidTypeNgrams(km) == SelectSeq(km.type_ngrams, LAMBDA e: \A x \in 1..Len(e.ng) : e.ng[x] # 4)
Convert(km0) ==
  LET km == [km0 EXCEPT !.type_ngrams = ValidTypeNgrams(km0)] IN
  [bias |-> km.bias, cw |-> km.char_w, tw |-> km.type_w,
   cng |-> [i \in 1..Len(km.char_ngrams) |->
              [ng |-> km.char_ngrams[i].ng, w |-> SubSeq(km.char_ngrams[i].v, 1, 2 * km.char_w - Len(km.char_ngrams[i].ng) + 1)]],
   tng |-> [i \in 1..Len(km.type_ngrams) |->
              [ng |-> [x \in 1..Len(km.type_ngrams[i].ng) |-> TypeCode(km.type_ngrams[i].ng[x])],
               w |-> SubSeq(km.type_ngrams[i].v, 1, 2 * km.type_w - Len(km.type_ngrams[i].ng) + 1)]],
   dict |-> [i \in 1..Len(km.words) |-> [ng |-> km.words[i].w, w |-> WordWeights(km, km.words[i])]],
   tags |-> <<>>]
=============================================================================
