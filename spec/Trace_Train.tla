------------------------------ MODULE Trace_Train ------------------------------
(* I->S validation of training (C09, C11, C12).  One event per training run of the real Trainer:  *)
(* configuration, the learner's quantised output as recorded by the verif-hooks, the decoded       *)
(* model, the outcome of every pipeline stage, and the observations of the trained model on        *)
(* evaluation texts.  The learner itself is unconstrained; the events bind its output.            *)
EXTENDS VpTrainer, Json, IOUtils
CONSTANT Chains
Rec == ndJsonDeserialize(IOEnv.TRACE)
VARIABLES k, l
Init == k \in 1..Chains /\ l = k
Next == l + Chains <= Len(Rec) /\ l' = l + Chains /\ k' = k

\* ---- C09: the trained model computes exactly the function the learner produced
FunctionOk(e) ==
  /\ e.train = "ok" /\ e.model_ok
  /\ LayoutOk(e.model)
  /\ \A i \in 1..Len(e.evals) :
        LET x == e.evals[i] IN
        /\ x.ok
        /\ Len(x.scores) = Len(x.text) - 1
        \* (i) relational, as C09 states it: bias + learned weight of each feature THE TRAINER EXTRACTS for the boundary
        \*     (x.feats: the features read back from a trainer for the annotated boundaries, in order)
        /\ x.feats_ok
        /\ LET ann == SelectSeq([b \in 1..Len(x.labels) |-> b], LAMBDA b: x.labels[b] # LU) IN
           /\ Len(x.feats) = Len(ann)
           /\ \A j \in 1..Len(ann) :
                 x.scores[ann[j]] = e.qbias + SumSeq([y \in 1..Len(x.feats[j]) |-> x.feats[j][y].cnt * QOf(e.q, x.feats[j][y].f)])

\* the learned function is the one the learner produced, not its negation: the learner starts from the zero function and only
\* improves its objective, so unless it learned nothing at least one TRAINING boundary lies on the side of 0 its annotation names
\* (an all-wrong function has a larger loss than the zero function).  Guards against picking the wrong class column.
OrientationOk(e) ==
  LET tr == {i \in 1..Len(e.evals) : e.evals[i].is_train}
      learned == e.qbias # 0 \/ \E j \in 1..Len(e.q) : e.q[j].q # 0
  IN (learned /\ tr # {}) =>
       \E i \in tr : \E b \in 1..Len(e.evals[i].labels) :
          \/ e.evals[i].labels[b] = LW /\ e.evals[i].scores[b] > 0
          \/ e.evals[i].labels[b] = LN /\ e.evals[i].scores[b] < 0

\* ---- C11: the pipeline life-cycle.  stages = <<[st, res]>> in execution order.
\* Allowed behaviours: new -> err | new -> ok, train -> err | new -> ok, train -> ok and then every later stage ok.
PipelineOk(e) ==
  LET s == e.stages IN
  /\ Len(s) >= 1 /\ s[1].st = "new" /\ s[1].res \in {"ok", "err"}
  /\ (s[1].res = "err" => Len(s) = 1)
  /\ (s[1].res = "ok" =>
        /\ Len(s) >= 2 /\ s[2].st = "train" /\ s[2].res \in {"ok", "err"}
        /\ (s[2].res = "err" => Len(s) = 2)
        /\ (s[2].res = "ok" =>
              /\ \A i \in 3..Len(s) : s[i].res = "ok"
              /\ {"write", "read", "pred_notags", "pred_tags", "weights_i16"} \subseteq {s[i].st : i \in 3..Len(s)}))

\* ---- C12: tag inventory and classifier scores
\* inv: expected inventory as a sequence of [token, cats : Seq(set of tags as a sequence)], from the generator
InventoryOk(e) ==
  /\ e.train = "ok" /\ e.model_ok
  /\ {e.model.tags[i].token : i \in 1..Len(e.model.tags)} = {e.inv[i].token : i \in 1..Len(e.inv)}
  /\ \A i \in 1..Len(e.model.tags) : \A j \in 1..Len(e.inv) :
        e.model.tags[i].token = e.inv[j].token =>
          LET tm == e.model.tags[i]  want == e.inv[j].cats IN
          /\ Len(tm.cats) = Len(want)
          /\ \A c \in 1..Len(want) :
               /\ {tm.cats[c][x] : x \in 1..Len(tm.cats[c])} = {want[c][x] : x \in 1..Len(want[c])}   \* exactly the distinct tags
               /\ Len(tm.cats[c]) = Cardinality({want[c][x] : x \in 1..Len(want[c])})                 \* each once
          /\ Len(tm.bias) = NClasses(tm)                                                             \* trainable candidates
  /\ \A i \in 1..Len(e.model.tags) : \A x \in DOMAIN e.model.tags[i].token : TRUE

\* consequences on prediction + stored scores = learned classifier on the trainer's tag features
TagEvalOk(e) ==
  \A i \in 1..Len(e.evals) :
    LET x == e.evals[i] IN
    /\ x.ok
    /\ \A t \in 1..Len(x.tokens) :
         LET tok == x.tokens[t]
             ids == {y \in 1..Len(e.model.tags) : e.model.tags[y].token = tok.surf} IN
         IF ids = {} THEN \A c \in 1..Len(tok.tags) : tok.tags[c] = <<>>                     \* never seen: no tags
         ELSE LET tm == e.model.tags[CHOOSE y \in ids : TRUE] IN
              /\ \A c \in 1..Len(tm.cats) :
                   /\ (Len(tm.cats[c]) = 1 => tok.tags[c] = tm.cats[c][1])                   \* single tag: always that tag
                   /\ (Len(tm.cats[c]) >= 2 => tok.tags[c] \in {tm.cats[c][z] : z \in 1..Len(tm.cats[c])})
                   /\ (Len(tm.cats[c]) = 0 => tok.tags[c] = <<>>)
              /\ \A c \in (Len(tm.cats) + 1)..Len(tok.tags) : tok.tags[c] = <<>>
              /\ (x.has_cands =>
                    \A c \in 1..Len(tm.cats) : Len(tm.cats[c]) >= 2 =>
                       \A z \in 1..Len(tm.cats[c]) :
                          tok.cands[c][z].t = tm.cats[c][z] /\
                          tok.cands[c][z].s = TagTrainedScore(e.cfg, e.tagq, tok.surf, c, z, x.text, <<tok.s, tok.e>>))

Accept(e) ==
  CASE e.ev = "function" -> FunctionOk(e) /\ OrientationOk(e)
    [] e.ev = "pipeline" -> PipelineOk(e)
    [] e.ev = "inventory" -> InventoryOk(e) /\ TagEvalOk(e)
    [] OTHER -> FALSE
Check == l <= Len(Rec) => (Accept(Rec[l]) \/ PrintT(<<"REJECT", ToJson([l |-> l, id |-> Rec[l].id])>>))
=============================================================================
