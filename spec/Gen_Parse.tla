------------------------------ MODULE Gen_Parse ------------------------------
(* Case generator (S->I) for C05: every string over Alphabet up to MaxLen, with the set of   *)
(* results the specification allows for each constructor and each in-place update.           *)
EXTENDS VpFormats, Json
CONSTANTS Alphabet, MaxLen
VARIABLE s
Init == s = <<>>
Next == Len(s) < MaxLen /\ \E c \in Alphabet : s' = Append(s, c)
DirtyStr == <<97, 47, 88, 32, 98, 47, 89, 47, 90>>   \* "a/X b/Y/Z"
Case == [s |-> s,
         new_raw |-> AllowedNew("raw", s), new_tok |-> AllowedNew("tok", s), new_part |-> AllowedNew("part", s),
         up_raw |-> AllowedUpd("raw", s), up_tok |-> AllowedUpd("tok", s), up_part |-> AllowedUpd("part", s),
         dirty |-> DirtyStr, up_dirty |-> AllowedUpd("tok", DirtyStr)]
Emit == PrintT(<<"CASE", ToJson(Case)>>)
EmitS == PrintT(<<"CASE", ToJson([s |-> s])>>)
\* sanity of the specification itself on every enumerated string
Sane == /\ \A f \in {"raw", "tok", "part"} : \A r \in Allowed(f, s) : r.res = "ok" =>
             /\ Len(r.text) >= 1 /\ Len(r.types) = Len(r.text) /\ Len(r.bnd) = Len(r.text) - 1
             /\ Len(r.tags) = Len(r.text) /\ \A i \in 1..Len(r.tags) : Len(r.tags[i]) = r.ntags
             /\ \A i \in 1..Len(r.text) : r.text[i] # NUL
=============================================================================
