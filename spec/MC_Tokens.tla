------------------------------ MODULE MC_Tokens ------------------------------
(* C02, design level and case generator.  TLC enumerates every boundary label vector in      *)
(* {N, W, U}^(n-1), n <= MaxN (BFS over the tree of vectors), checks that the iterator state  *)
(* machine produces exactly the reference tokens, checks the partition laws on unknown-free   *)
(* vectors, and prints one replay case per vector with the expected token records.           *)
EXTENDS VpFormats, Json
CONSTANTS MaxN, Cumulative, EmitCases
VARIABLE bnd
Init == bnd = <<>>
Next == Len(bnd) + 1 < MaxN /\ \E x \in Labels : bnd' = Append(bnd, x)

\* texts cycle through 1-, 2-, 3- and 4-byte characters so that character spans differ from byte spans
Cycle == <<97, 167, 12354, 128512>>
TextFor(n) == [i \in 1..n |-> Cycle[((i - 1) % 4) + 1]]
\* a second text made of the tokenized format's own special characters (space, slash, backslash) and a multi-byte one
CycleB == <<47, 32, 92, 12354, 32>>
TextForB(n) == [i \in 1..n |-> CycleB[((i - 1) % 5) + 1]]
SentForB(b) == [text |-> TextForB(Len(b) + 1), bnd |-> b, ntags |-> 1,
                tags |-> [i \in 1..(Len(b) + 1) |-> <<<<47, 64 + i, 32>>>>]]
\* one tag category; the tag of character i is the single letter chr(64 + i)
SentFor(b) == [text |-> TextFor(Len(b) + 1), bnd |-> b, ntags |-> 1,
               tags |-> [i \in 1..(Len(b) + 1) |-> <<<<64 + i>>>>]]

IterOk == IterTokens(bnd, Cumulative) = RefTokens(bnd)
PartitionOk == (\A i \in 1..Len(bnd) : bnd[i] # LU) => Partition(bnd)
\* every reported token is a maximal segment; segments containing an unknown label are not reported
RefSound == \A k \in 1..Len(RefTokens(bnd)) : IsToken(bnd, RefTokens(bnd)[k][1], RefTokens(bnd)[k][2])

Emit == EmitCases => /\ PrintT(<<"CASE", ToJson([sent |-> SentFor(bnd), tokens |-> TokenRecords(SentFor(bnd))])>>)
                     /\ PrintT(<<"CASE", ToJson([sent |-> SentForB(bnd), tokens |-> TokenRecords(SentForB(bnd))])>>)
=============================================================================
