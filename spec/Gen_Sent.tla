------------------------------- MODULE Gen_Sent -------------------------------
(* Sentence generator for the writer round trips (C03, C04): every sentence with a text over  *)
(* Alphabet up to MaxN characters, every label vector over LabelSet, and tag rows drawn from   *)
(* a pool that contains the formats' own delimiters.  TLC also checks the round-trip theorems  *)
(* of the specification's own writer/reader pair on every generated sentence.                 *)
EXTENDS VpFormats, Json
CONSTANTS Alphabet, LabelSet, MaxN, NTags, RowIds
VARIABLE sent

A == Absent
TX == <<88>>                 \* X
TSL == <<47>>                \* /
TASB == <<97, 32, 98>>       \* a b
TBS == <<92>>                \* \
TAS == <<12354, 47>>         \* あ/
THB == <<45, 124>>           \* -|
TME == <<21517, 45, 35422>>  \* 名-詞
TBB == <<92, 92, 47>>        \* \\/
RowPool == <<  <<A, A>>, <<TX, A>>, <<A, TX>>, <<TSL, TASB>>, <<TBS, TAS>>, <<THB, TME>>, <<TBB, TX>>, <<A, TBS>> >>
RowFor(i) == IF NTags = 0 THEN <<>> ELSE SubSeq(RowPool[i], 1, NTags)

Init == sent = [text |-> <<>>, bnd |-> <<>>, ntags |-> NTags, tags |-> <<>>]
Next == /\ Len(sent.text) < MaxN
        /\ \E c \in Alphabet, r \in (IF NTags = 0 THEN {1} ELSE RowIds) :
             IF sent.text = <<>>
             THEN sent' = [sent EXCEPT !.text = <<c>>, !.tags = <<RowFor(r)>>]
             ELSE \E x \in LabelSet :
                  sent' = [sent EXCEPT !.text = Append(@, c), !.bnd = Append(@, x), !.tags = Append(@, RowFor(r))]

NoU == \A i \in 1..Len(sent.bnd) : sent.bnd[i] # LU
Emit == sent.text # <<>> => PrintT(<<"CASE", ToJson([sent |-> sent, nou |-> NoU])>>)
SpecRoundTripTok == (sent.text # <<>> /\ NoU) => RoundTripTok(sent)
SpecRoundTripPart == sent.text # <<>> => RoundTripPart(sent)
\* writing is stable: write(parse(write(S))) = write(S)
SpecIdemTok == (sent.text # <<>> /\ NoU) =>
   LET w == WriteTokenized(sent) IN WriteTokenized(ParseTokenized(w)) = w
SpecIdemPart == sent.text # <<>> => LET w == WritePartial(sent) IN WritePartial(ParsePartial(w)) = w
=============================================================================
