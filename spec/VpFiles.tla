------------------------------- MODULE VpFiles -------------------------------
(* Reading and writing a serialised model (property C07; also the serialised predictor's        *)
(* trailing bytes, C14, and the KyTea reader's truncation behaviour, C17).                      *)
(* A file is Hdr header units followed by a self-delimiting body; the complete serialisation    *)
(* has L units.  The stream offered to the reader has `avail` units (a proper prefix when        *)
(* avail < L, trailing bytes when avail > L).  The underlying reader may deliver fewer units     *)
(* than asked, may be interrupted (the call is retried), and may fail with an I/O error once     *)
(* `fault` units have been delivered.                                                          *)
(* Layer R: Outcome(...) - what the property demands.                                          *)
(* Layer I: the reader/writer as step machines (MC_Files checks that every run ends in the      *)
(*          outcome Layer R demands, and never in "panic").                                    *)
EXTENDS Naturals, Sequences, TLC

NoFault == 2000000000   \* "the reader/writer never fails": larger than any file length (32-bit)

\* ---- Layer R
\* reading through std::io::Read (needs exactly L units; trailing units are not consumed)
ReadOutcome(L, avail, fault, hdrOk) ==
  IF ~hdrOk THEN "err"                         \* different header
  ELSE IF fault < L THEN "err"                 \* the reader fails before the model is complete
  ELSE IF avail < L THEN "err"                 \* proper prefix
  ELSE "ok"
\* reading from a slice: also reports the rest
SliceOutcome(L, avail, hdrOk) == IF ~hdrOk \/ avail < L THEN "err" ELSE "ok"
SliceRest(L, avail) == avail - L
\* writing L units into a writer that fails after `fault` units
WriteOutcome(L, fault) == IF fault < L THEN "err" ELSE "ok"

\* ---- Layer I: sequential reader.  st = [pos, phase, out]
\* phase: "hdr" (reading the header), "body", "done"; out: "none" | "ok" | "err" | "panic"
ReaderInit == [pos |-> 0, phase |-> "hdr", out |-> "none"]
\* one call of the underlying read delivering k units (k >= 1), or signalling EOF / fault / interrupt
Deliver(st, k) == [st EXCEPT !.pos = @ + k]
\* header check happens when Hdr units are in; body decoding completes at L units
AfterDeliver(st, Hdr, L, hdrOk) ==
  IF st.phase = "hdr" /\ st.pos >= Hdr
  THEN IF hdrOk THEN [st EXCEPT !.phase = IF st.pos >= L THEN "done" ELSE "body", !.out = IF st.pos >= L THEN "ok" ELSE "none"]
       ELSE [st EXCEPT !.phase = "done", !.out = "err"]
  ELSE IF st.phase = "body" /\ st.pos >= L THEN [st EXCEPT !.phase = "done", !.out = "ok"]
  ELSE st
\* how many units the decoder asks for next: the rest of the header, then field by field (1 unit here)
Wanted(st, Hdr) == IF st.phase = "hdr" THEN Hdr - st.pos ELSE 1

\* ---- Layer I: slice reader.  `checkLen` = FALSE is the variant that slices the header before
\* checking that the input is long enough.
SliceRun(L, Hdr, avail, hdrOk, checkLen) ==
  IF avail < Hdr THEN (IF checkLen THEN "err" ELSE "panic")
  ELSE IF ~hdrOk THEN "err"
  ELSE IF avail < L THEN "err"
  ELSE "ok"
=============================================================================
