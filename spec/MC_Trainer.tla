------------------------------ MODULE MC_Trainer ------------------------------
(* Design-level check for C09: how the trainer lays learned weights out in the model.            *)
(* ModelFromWeights places the weight of feature (kind, n-gram, rel) into slot                    *)
(*     W_kind - Len(n-gram) - rel + 1     of the n-gram's vector (length 2*W_kind - Len + 1)        *)
(* and builds each dictionary word's vector as (left, inside ..., right) of its length bucket.      *)
(* TLC checks, for every configuration of the family, an arbitrary (fingerprint) weight function     *)
(* and every text up to the bound, that the reference scorer on that model computes exactly           *)
(*     qbias + sum over the trainer's features of q[feature]                                        *)
(* -- including configurations whose two windows differ.  UseCharWindowForTypes = TRUE is the         *)
(* mutant that sizes/indexes type vectors with the character window: TLC must reject it.             *)
EXTENDS VpTrainer
CONSTANTS CWs, CNs, TWs, TNs, DictSel, DNs, Alphabet, MaxText, UseCharWindowForTypes
VARIABLES cw, cn, tw, tn, dsel, dn, phase

DictPool == << <<97>>, <<97, 97>>, <<97, 12354>>, <<12354, 97, 97>> >>
BitSet(mask, j) == (mask \div (2 ^ j)) % 2 = 1
DictSeq == LET ids == {i \in 1..Len(DictPool) : BitSet(dsel, i - 1)} IN [k \in 1..Cardinality(ids) |-> DictPool[SortedSeq(ids)[k]]]
Cfg == [cw |-> cw, cn |-> cn, tw |-> tw, tn |-> tn, dict |-> DictSeq, dn |-> dn]

Init == cw \in CWs /\ cn \in CNs /\ tw \in TWs /\ tn \in TNs /\ dsel \in DictSel /\ dn \in DNs /\ phase = 0
Next == phase = 0 /\ phase' = 1 /\ UNCHANGED <<cw, cn, tw, tn, dsel, dn>>

Texts == SeqsOf(Alphabet, 1, MaxText)
\* every feature the trainer can extract from the texts of the family
AllFeatures == UNION {UNION {{x.f : x \in FeatureBag(Cfg, t, b)} : b \in 1..(Len(t) - 1)} : t \in Texts}
\* the "learner": an arbitrary injective-looking function of the feature
H(s) == FoldLeft(LAMBDA a, c: (a * 31 + c) % 997, 7, s)
QF(f) == IF f.k = "d" THEN 50 * f.len + 7 * f.side + 3
         ELSE (IF f.k = "c" THEN 1 ELSE -1) * (H(f.ng) + 13 * (f.rel + 10))
QBias == -41

\* the model the trainer builds from these weights (AF = the set of extracted features, computed once per state)
NgVec(AF, kind, g, W) ==
  [k \in 1..(2 * W - Len(g) + 1) |->
     LET rel == W - Len(g) - k + 1  f == [k |-> kind, ng |-> g, rel |-> rel] IN IF f \in AF THEN QF(f) ELSE 0]
NgramsOf(AF, kind) == {f.ng : f \in {x \in AF : x.k = kind}}
DictVec(AF, w) == LET b == Bucket(Len(w), dn)
                      Q(side) == LET f == [k |-> "d", len |-> b, side |-> side] IN IF f \in AF THEN QF(f) ELSE 0 IN
                  [k \in 1..(Len(w) + 1) |-> IF k = 1 THEN Q(0) ELSE IF k = Len(w) + 1 THEN Q(2) ELSE Q(1)]
TypeW == IF UseCharWindowForTypes THEN cw ELSE tw
ModelFromWeights(AF) ==
  LET cs == SetToSeq(NgramsOf(AF, "c"))  ts == SetToSeq(NgramsOf(AF, "t")) IN
  [bias |-> QBias, cw |-> cw, tw |-> tw,
   cng |-> [i \in 1..Len(cs) |-> [ng |-> cs[i], w |-> NgVec(AF, "c", cs[i], cw)]],
   tng |-> [i \in 1..Len(ts) |-> [ng |-> ts[i], w |-> NgVec(AF, "t", ts[i], TypeW)]],
   dict |-> [i \in 1..Len(DictSeq) |-> [ng |-> DictSeq[i], w |-> DictVec(AF, DictSeq[i])]],
   tags |-> <<>>]

LearnedScore(t, b) == LET bag == FeatureBag(Cfg, t, b) IN QBias + SumFun([x \in bag |-> x.cnt * QF(x.f)], bag)

\* C09 at the design level
ModelComputesLearnedFunction ==
  phase = 1 => LET M == ModelFromWeights(AllFeatures) IN
               \A t \in Texts : \A b \in 1..(Len(t) - 1) : RefScore(M, t, b) = LearnedScore(t, b)
\* every stored vector covers exactly the positions of its own window
OwnWindowLayout == (phase = 1 /\ ~UseCharWindowForTypes) => LayoutOk(ModelFromWeights(AllFeatures))
=============================================================================
