------------------------------ MODULE VpFilters ------------------------------
(* Sentence post-filters (property C15) as functions on the abstract sentence                 *)
(* [text, bnd, ntags, tags].  Each returns the new label vector (or tag rows); text and       *)
(* character types are never touched.                                                        *)
EXTENDS VpBase, VpTokens

(* --- character-type filter: clears exactly the boundaries between two adjacent characters of type t *)
WsConst(t, text, bnd) ==
  [i \in 1..Len(bnd) |-> IF CharType(text[i]) = t /\ CharType(text[i + 1]) = t THEN LN ELSE bnd[i]]

(* --- line-break filter: sets exactly the boundaries adjacent to CR or LF *)
IsLB(c) == c = CRc \/ c = LFc
LineBreak(text, bnd) ==
  [i \in 1..Len(bnd) |-> IF IsLB(text[i]) \/ IsLB(text[i + 1]) THEN LW ELSE bnd[i]]

(* --- grapheme filter: clears exactly the boundaries inside extended grapheme clusters.       *)
(* UAX #29 rules GB3-GB9b, GB11, GB12/13 over character classes; GB9c (Indic conjuncts) is    *)
(* outside the generated alphabets.                                                          *)
GCR == "CR"  GLF == "LF"  GCTL == "Control"  GEXT == "Extend"  GZWJ == "ZWJ"  GRI == "RI"  GPRE == "Prepend"
GSM == "SpacingMark"  GHL == "L"  GHV == "V"  GHT == "T"  GLV == "LV"  GLVT == "LVT"  GXP == "ExtPict"  GOTH == "Other"

\* classes of the characters used by generators and random drivers
GClass(c) ==
  CASE c = 13 -> GCR
    [] c = 10 -> GLF
    [] c \in {1, 8203} -> GCTL                                   \* U+0001, ZERO WIDTH SPACE
    [] c \in {769, 12441, 65039, 127997, 65438, 65439} -> GEXT    \* U+0301, U+3099, VS16, skin tone U+1F3FD, half-width (han)dakuten U+FF9E/U+FF9F (typed Katakana)
    [] c = 8205 -> GZWJ
    [] c \in {127471, 127477, 127482, 127480} -> GRI              \* regional indicators J P U S
    [] c = 1536 -> GPRE
    [] c = 2307 -> GSM
    [] c = 4352 -> GHL
    [] c = 4449 -> GHV
    [] c = 4520 -> GHT
    [] c = 44032 -> GLV
    [] c = 44033 -> GLVT
    [] c \in {128104, 128105, 128102, 128512, 128077, 128079, 10084} -> GXP   \* 👨 👩 👦 😀 👍 👏 ❤
    [] OTHER -> GOTH

IsCtl(x) == x \in {GCR, GLF, GCTL}

\* GB11: position i holds ZWJ; true iff what precedes it is ExtPict Extend*
RECURSIVE XpExt(_, _)
XpExt(cls, j) == IF j < 1 THEN FALSE
                 ELSE IF cls[j] = GXP THEN TRUE
                 ELSE IF cls[j] = GEXT THEN XpExt(cls, j - 1)
                 ELSE FALSE

\* number of consecutive RI ending at position i (inclusive)
RECURSIVE RiRun(_, _)
RiRun(cls, i) == IF i < 1 \/ cls[i] # GRI THEN 0 ELSE 1 + RiRun(cls, i - 1)

\* is there a grapheme cluster break between characters i and i+1 ?
GBreak(cls, i) ==
  LET a == cls[i]  b == cls[i + 1] IN
  IF a = GCR /\ b = GLF THEN FALSE                                   \* GB3
  ELSE IF IsCtl(a) \/ IsCtl(b) THEN TRUE                             \* GB4, GB5
  ELSE IF a = GHL /\ b \in {GHL, GHV, GLV, GLVT} THEN FALSE          \* GB6
  ELSE IF a \in {GLV, GHV} /\ b \in {GHV, GHT} THEN FALSE            \* GB7
  ELSE IF a \in {GLVT, GHT} /\ b = GHT THEN FALSE                    \* GB8
  ELSE IF b \in {GEXT, GZWJ, GSM} THEN FALSE                         \* GB9, GB9a
  ELSE IF a = GPRE THEN FALSE                                        \* GB9b
  ELSE IF a = GZWJ /\ b = GXP /\ XpExt(cls, i - 1) THEN FALSE        \* GB11
  ELSE IF a = GRI /\ b = GRI /\ RiRun(cls, i) % 2 = 1 THEN FALSE     \* GB12, GB13
  ELSE TRUE

Grapheme(text, bnd) ==
  LET cls == [i \in 1..Len(text) |-> GClass(text[i])] IN
  [i \in 1..Len(bnd) |-> IF ~GBreak(cls, i) THEN LN ELSE bnd[i]]

(* --- pattern tagger: fills only absent tags of tokens whose surface has a rule.              *)
(* rules: sequence of [surf, tags] (surfaces unique)                                         *)
RuleFor(rules, surf) == {i \in 1..Len(rules) : rules[i].surf = surf}
PatternTag(rules, sent) ==
  LET toks == RefTokens(sent.bnd)
      LastOf == {toks[i][2] : i \in 1..Len(toks)}
      TokEnding(p) == toks[CHOOSE i \in 1..Len(toks) : toks[i][2] = p]
  IN [p \in 1..Len(sent.text) |->
        IF p \notin LastOf \/ sent.ntags = 0 THEN (IF sent.ntags = 0 THEN <<>> ELSE sent.tags[p])
        ELSE LET tk == TokEnding(p)  surf == SubSeq(sent.text, tk[1] + 1, tk[2])  ids == RuleFor(rules, surf) IN
             IF ids = {} THEN sent.tags[p]
             ELSE LET r == rules[CHOOSE i \in ids : TRUE].tags IN
                  [j \in 1..sent.ntags |->
                     IF sent.tags[p][j] # <<>> THEN sent.tags[p][j]
                     ELSE IF j <= Len(r) THEN r[j] ELSE <<>>]]

(* --- one dispatcher, used by the life-cycle and by the generators.  f is the filter letter. *)
TypeOfLetter(f) == CASE f = "D" -> TDigit [] f = "R" -> TRoman [] f = "H" -> THira [] f = "T" -> TKata
                     [] f = "K" -> TKanji [] f = "O" -> TOther
FilterBnd(f, text, bnd) ==
  IF f = "G" THEN Grapheme(text, bnd)
  ELSE IF f = "L" THEN LineBreak(text, bnd)
  ELSE WsConst(TypeOfLetter(f), text, bnd)

(* meta-properties stated by C15, checked by TLC on every generated sentence *)
OnlyRuleBoundariesChange(f, text, bnd) ==
  LET nb == FilterBnd(f, text, bnd) IN
  \A i \in 1..Len(bnd) : nb[i] # bnd[i] =>
      (IF f = "L" THEN nb[i] = LW ELSE nb[i] = LN)
Idempotent(f, text, bnd) == FilterBnd(f, text, FilterBnd(f, text, bnd)) = FilterBnd(f, text, bnd)
=============================================================================
