---------------------------- MODULE Gen_CharTypes ----------------------------
(* Case generator (S->I) for the character classification (C05: "character types ... describe   *)
(* exactly the new input"): the code space is cut into chunks of Chunk consecutive scalar values; *)
(* every chunk of planes 0-2 (where all ranges of the documented table lie) and a few chunks of   *)
(* the higher planes is one sentence, with the state the raw constructor must produce for it.     *)
(* NUL and the surrogates are left out (not part of any Rust string / rejected by the parsers).   *)
EXTENDS VpFormats, Json
CONSTANTS Chunk, Chunks          \* Chunks: set of chunk indices (chunk k covers k*Chunk .. (k+1)*Chunk - 1)
VARIABLE k
Init == k \in Chunks
Next == FALSE /\ UNCHANGED k
Scalar(c) == c >= 1 /\ c <= 1114111 /\ ~(c >= 55296 /\ c <= 57343)
s == SelectSeq([i \in 1..Chunk |-> k * Chunk + i - 1], Scalar)
Emit == s # <<>> => PrintT(<<"CASE", ToJson([s |-> s, new_raw |-> AllowedNew("raw", s), up_raw |-> AllowedUpd("raw", s)])>>)
\* the classification is total and the table's ranges are disjoint by construction (IF-chain); sanity: type codes
Sane == \A i \in 1..Len(s) : CharType(s[i]) \in CharTypes
=============================================================================
