--------------------------- MODULE Trace_Concurrent ---------------------------
(* I->S validation of concurrent use of one predictor (C08).  The trace is the merged log of    *)
(* begin/end events of real threads, ordered by a global atomic sequence number.  The trace     *)
(* specification tracks the call in flight of every thread; an `end` is accepted iff it carries  *)
(* the reference result of that thread's own `begin`.                                          *)
EXTENDS VpModel, Json, IOUtils
Rec == ndJsonDeserialize(IOEnv.TRACE)
VARIABLES l, model, pend
None == [none |-> TRUE]
Init == l = 1 /\ model = None /\ pend = <<>>

EmptyRows(n) == [p \in 1..n |-> <<>>]
EndOk(m, b, e) ==
  LET x == b.text  nt == ModelNTags(m)  lab == RefLabels(m, x) IN
  /\ e.ok
  /\ e.scores = RefScores(m, x)
  /\ e.bnd = lab
  /\ IF b.fill /\ nt > 0 THEN e.ntags = nt /\ e.tags = RefTagRows(m, x, lab)
     ELSE e.ntags = 0 /\ e.tags = EmptyRows(Len(x))

Step(e) ==
  CASE e.ev = "init" -> /\ model' = e.model /\ pend' = [t \in 1..e.threads |-> None]
    [] e.ev = "begin" -> /\ pend[e.t + 1] = None /\ pend' = [pend EXCEPT ![e.t + 1] = e] /\ UNCHANGED model
    [] e.ev = "end" -> /\ pend[e.t + 1] # None
                       /\ (IF EndOk(model, pend[e.t + 1], e) THEN TRUE ELSE PrintT(<<"REJECT", ToJson([l |-> l, id |-> e.id])>>))
                       /\ pend' = [pend EXCEPT ![e.t + 1] = None] /\ UNCHANGED model
    [] OTHER -> PrintT(<<"REJECT", ToJson([l |-> l, id |-> e.id])>>) /\ UNCHANGED <<model, pend>>

Next == l <= Len(Rec) /\ Step(Rec[l]) /\ l' = l + 1
\* every line must be consumed
Consumed == TLCGet("stats").diameter - 1 = Len(Rec) \/ PrintT(<<"REJECT", ToJson([l |-> TLCGet("stats").diameter, id |-> -1])>>)
=============================================================================
