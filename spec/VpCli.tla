--------------------------------- MODULE VpCli ---------------------------------
(* The command-line tools (property C20).                                                       *)
(* predict: the input stream is read line by line (split on LF, one trailing CR removed, a final   *)
(* unterminated line counts).  For every input line exactly one token line is written; optional     *)
(* blocks follow it: the boundary-score block (--scores) and the tag-score block (--tag-scores),     *)
(* each terminated by an empty line, in the same layout with and without normalisation.             *)
(* evaluate: counts per Nagata's method / per boundary, from reference and system annotations.      *)
EXTENDS VpFormats

(* ------------------------------------------------------------------ lines of a stream *)
RECURSIVE SplitOn(_, _)
SplitOn(s, sep) ==      \* pieces between separators; a trailing separator does not open a new piece
  IF s = <<>> THEN <<>>
  ELSE LET idx == {i \in 1..Len(s) : s[i] = sep} IN
       IF idx = {} THEN <<s>>
       ELSE LET i == Min(idx) IN <<SubSeq(s, 1, i - 1)>> \o SplitOn(SubSeq(s, i + 1, Len(s)), sep)
StripCR(l) == IF l # <<>> /\ l[Len(l)] = CRc THEN SubSeq(l, 1, Len(l) - 1) ELSE l
Lines(stream) == LET p == SplitOn(stream, LFc) IN [i \in 1..Len(p) |-> StripCR(p[i])]

(* ------------------------------------------------------------------ decimal numbers *)
RECURSIVE DecNat(_)
DecNat(n) == IF n < 10 THEN <<48 + n>> ELSE DecNat(n \div 10) \o <<48 + (n % 10)>>
Dec(n) == IF n < 0 THEN <<HYPHEN>> \o DecNat(0 - n) ELSE DecNat(n)

IsPrefixOf(a, b) == Len(a) <= Len(b) /\ SubSeq(b, 1, Len(a)) = a
Drop(s, k) == SubSeq(s, k + 1, Len(s))

(* ------------------------------------------------------------------ one accepted line *)
\* lp: the library pipeline's result for the line: [accepted, norm, bnd, ntags, tags, scores, tokens(with cands)]
\* The token line may be ANY text that the tokenized reader maps back to the original line with the
\* pipeline's boundaries and tags (escaping is not pinned).
TokLineOk(tl, line, lp) ==
  IF ~lp.accepted THEN tl = <<>>
  ELSE LET r == ParseTokenized(tl)
           want == [text |-> line, bnd |-> lp.bnd, ntags |-> lp.ntags, tags |-> lp.tags] IN
       /\ r.res = "ok" /\ r.text = line /\ r.bnd = lp.bnd
       /\ TokenTagsEquiv(want, r)

\* boundary-score block: one line "i:XY score" per boundary, then an empty line.  XY may be shown in
\* the original or in the normalised spelling.
ScoreBlocks(line, lp) ==
  LET n == Len(line)
      Row(txt, i) == Dec(i - 1) \o <<COLON, txt[i], txt[i + 1], SP>> \o Dec(lp.scores[i]) \o <<LFc>>
      Blk(txt) == Flatten([i \in 1..(n - 1) |-> Row(txt, i)]) \o <<LFc>>
  IN {Blk(line), Blk(lp.norm)}

\* tag-score block: one line per token: surface, then per tag category TAB and the comma-separated
\* candidates "tag:score"; then an empty line.
CandList(cat) == Flatten([c \in 1..Len(cat) |-> (IF c = 1 THEN <<>> ELSE <<COMMA>>) \o cat[c].t \o <<COLON>> \o Dec(cat[c].s)])
TagRow(surf, cands) == surf \o Flatten([j \in 1..Len(cands) |-> <<TABc>> \o CandList(cands[j])]) \o <<LFc>>
TagBlocks(line, lp, withCands) ==
  LET toks == lp.tokens
      Surf(txt, k) == SubSeq(txt, toks[k].s + 1, toks[k].e)
      Blk(txt) == Flatten([k \in 1..Len(toks) |-> TagRow(Surf(txt, k), IF withCands THEN toks[k].cands ELSE <<>>)]) \o <<LFc>>
  IN {Blk(line), Blk(lp.norm)}

\* everything that may follow the token line's LF for one input line
\* flags: [scores, tag_scores, predict_tags]
AfterLine(line, lp, flags) ==
  LET sb == IF ~flags.scores THEN {<<>>}
            ELSE IF lp.accepted THEN ScoreBlocks(line, lp) ELSE {<<>>, <<LFc>>}      \* rejected line: no block or an empty block
      tb == IF ~flags.tag_scores THEN {<<>>}
            ELSE IF ~lp.accepted THEN {<<>>, <<LFc>>}
            ELSE IF flags.predict_tags /\ lp.ntags > 0 THEN TagBlocks(line, lp, TRUE)
            ELSE \* no tags were predicted (flag off, or a model without tags): nothing to report for the tokens
                 {<<>>, <<LFc>>} \cup TagBlocks(line, lp, FALSE)
  IN {a \o b : a \in sb, b \in tb}

RECURSIVE MatchFrom(_, _, _, _, _)
MatchFrom(k, lines, lps, flags, out) ==
  IF k > Len(lines) THEN out = <<>>
  ELSE LET idx == {i \in 1..Len(out) : out[i] = LFc} IN
       IF idx = {} THEN FALSE
       ELSE LET i == Min(idx)  tl == SubSeq(out, 1, i - 1)  rest == Drop(out, i) IN
            /\ TokLineOk(tl, lines[k], lps[k])
            /\ \E blk \in AfterLine(lines[k], lps[k], flags) :
                  IsPrefixOf(blk, rest) /\ MatchFrom(k + 1, lines, lps, flags, Drop(rest, Len(blk)))

PredictOutputOk(stream, lps, flags, out) ==
  LET lines == Lines(stream) IN Len(lps) = Len(lines) /\ MatchFrom(1, lines, lps, flags, out)

(* ------------------------------------------------------------------ evaluate *)
\* pairs: sequence of [ref, sys], each [bnd, ntags, tags]
CharCounts(pairs) ==
  LET Cnt(P(_, _)) == SumSeq([i \in 1..Len(pairs) |-> Cardinality({b \in 1..Len(pairs[i].ref.bnd) : P(pairs[i].ref.bnd[b], pairs[i].sys.bnd[b])})]) IN
  [tp |-> Cnt(LAMBDA r, h: r = h /\ h = LW), tn |-> Cnt(LAMBDA r, h: r = h /\ h # LW),
   fp |-> Cnt(LAMBDA r, h: r # h /\ h = LW), fn |-> Cnt(LAMBDA r, h: r # h /\ h # LW)]

\* Nagata's word matching: a system word is correct iff a reference word has the same span and the same tags
TokTags(a, p) == IF a.ntags = 0 THEN <<>> ELSE a.tags[p]
WordCounts(pairs) ==
  LET Sys(i) == TokenSet(pairs[i].sys.bnd)  Ref(i) == TokenSet(pairs[i].ref.bnd)
      Cor(i) == {t \in Sys(i) \cap Ref(i) : TokTags(pairs[i].sys, t[2]) = TokTags(pairs[i].ref, t[2])} IN
  [sys |-> SumSeq([i \in 1..Len(pairs) |-> Cardinality(Sys(i))]),
   ref |-> SumSeq([i \in 1..Len(pairs) |-> Cardinality(Ref(i))]),
   cor |-> SumSeq([i \in 1..Len(pairs) |-> Cardinality(Cor(i))])]
=============================================================================
