------------------------------ MODULE VpTokens ------------------------------
(* Tokens of a sentence (property C02).                                                      *)
(*  Layer R: RefTokens — the set-theoretic definition from the property statement.           *)
(*  Layer I: the token iterator as the state machine the code implements (carried            *)
(*           start/end, skip flag).                                                          *)
(* A token is <<s, e>>: 0-based start, exclusive end in characters (as Token::start/end).     *)
EXTENDS VpBase

NChars(bnd) == Len(bnd) + 1

(* Layer R.  <<s,e>> is a token iff it is delimited by word boundaries (or the sentence      *)
(* edges) and every boundary strictly inside it is a known non-boundary.                     *)
IsToken(bnd, s, e) ==
  /\ 0 <= s /\ s < e /\ e <= NChars(bnd)
  /\ (s = 0 \/ bnd[s] = LW)
  /\ (e = NChars(bnd) \/ bnd[e] = LW)
  /\ \A i \in (s + 1)..(e - 1) : bnd[i] = LN

TokenSet(bnd) == {p \in (0..Len(bnd)) \X (1..NChars(bnd)) : IsToken(bnd, p[1], p[2])}

RefTokens(bnd) == SetToSortSeq(TokenSet(bnd), LAMBDA a, b: a[1] < b[1])

(* Properties of RefTokens for vectors without unknown labels (first sentence of C02). *)
Partition(bnd) ==
  LET t == RefTokens(bnd) IN
  /\ Len(t) >= 1
  /\ t[1][1] = 0
  /\ t[Len(t)][2] = NChars(bnd)
  /\ \A k \in 1..Len(t) : t[k][1] < t[k][2]
  /\ \A k \in 1..(Len(t) - 1) : t[k][2] = t[k + 1][1] /\ bnd[t[k][2]] = LW
  /\ \A i \in 1..Len(bnd) : bnd[i] = LW => \E k \in 1..Len(t) : t[k][2] = i

(* Layer I.  One call of Iterator::next on the state st = [start, end, done].                *)
(* `cumulative` selects the (wrong) variant that adds the loop index to an already advanced   *)
(* start; it exists so that TLC can show the check is not vacuous (Mut_Tokens.cfg).           *)
RECURSIVE Scan(_, _, _, _, _, _)
\* scans boundaries i0+1 .. Len(bnd) (1-based), with loop index i (0-based from base)
Scan(bnd, base, i, start, skip, cumulative) ==
  LET pos == base + i + 1 IN      \* 1-based boundary index examined
  IF pos > Len(bnd) THEN
     IF skip THEN [tok |-> <<>>, start |-> start, end |-> NChars(bnd), some |-> FALSE]
     ELSE [tok |-> <<start, NChars(bnd)>>, start |-> start, end |-> NChars(bnd), some |-> TRUE]
  ELSE IF bnd[pos] = LW THEN
     IF skip THEN Scan(bnd, base, i + 1,
                       IF cumulative THEN start + i + 1 ELSE base + i + 1, FALSE, cumulative)
     ELSE [tok |-> <<start, base + i + 1>>, start |-> start, end |-> base + i + 1, some |-> TRUE]
  ELSE IF bnd[pos] = LU THEN Scan(bnd, base, i + 1, start, TRUE, cumulative)
  ELSE Scan(bnd, base, i + 1, start, skip, cumulative)

IterNext(bnd, st, cumulative) ==
  LET start == st.end IN
  IF start > Len(bnd) THEN [tok |-> <<>>, start |-> start, end |-> st.end, some |-> FALSE]
  ELSE Scan(bnd, start, 0, start, FALSE, cumulative)

RECURSIVE IterAllFrom(_, _, _, _)
IterAllFrom(bnd, st, cumulative, fuel) ==
  IF fuel = 0 THEN <<>>
  ELSE LET r == IterNext(bnd, st, cumulative) IN
       IF r.some THEN <<r.tok>> \o IterAllFrom(bnd, [start |-> r.start, end |-> r.end], cumulative, fuel - 1)
       ELSE <<>>

IterTokens(bnd, cumulative) == IterAllFrom(bnd, [start |-> 0, end |-> 0], cumulative, NChars(bnd) + 1)

IterEqualsRef(bnd) == IterTokens(bnd, FALSE) = RefTokens(bnd)

(* Expected token records for a sentence [text, bnd, ntags, tags] (tags: one row per char).  *)
TokenRecords(sent) ==
  LET t == RefTokens(sent.bnd) IN
  [k \in 1..Len(t) |->
     [s |-> t[k][1], e |-> t[k][2],
      surf |-> SubSeq(sent.text, t[k][1] + 1, t[k][2]),
      tags |-> IF sent.ntags = 0 THEN <<>> ELSE sent.tags[t[k][2]]]]
=============================================================================
