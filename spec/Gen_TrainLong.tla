---------------------------- MODULE Gen_TrainLong ----------------------------
(* Case generator (S->I) for C10 with windows in the upper half of the u8 range: periodic sentences  *)
(* longer than the window, annotated at a few boundaries near both ends and in the middle (all other    *)
(* boundaries unknown); expected examples by VpTrainer!Examples.  Same CASE shape as Gen_Train.          *)
EXTENDS VpTrainer, VpFormats, Json
CONSTANTS WinIdx, Lens, PatIdx
VARIABLES wi, n, pi
WinPool == << <<130, 1>>, <<1, 200>>, <<255, 255>>, <<129, 128>>, <<128, 3>> >>
PatPool == << <<97>>, <<97, 12354>>, <<97, 49, 12354>> >>
Init == wi \in WinIdx /\ n \in Lens /\ pi \in PatIdx
Next == FALSE /\ UNCHANGED <<wi, n, pi>>
Cfg == [cw |-> WinPool[wi][1], cn |-> 1, tw |-> WinPool[wi][2], tn |-> 1, dict |-> <<>>, dn |-> 1]
pat == PatPool[pi]
Annotated == {1, 2, n \div 2, n - 2, n - 1}
Sent == [text |-> [i \in 1..n |-> pat[((i - 1) % Len(pat)) + 1]],
         bnd |-> [i \in 1..(n - 1) |-> IF i \notin Annotated THEN LU ELSE IF i % 2 = 0 THEN LW ELSE LN],
         ntags |-> 0, tags |-> [i \in 1..n |-> <<>>]]
ExOut(sent) == {[b |-> e.b, label |-> e.label, feats |-> {x.f @@ [cnt |-> x.cnt] : x \in e.feats}] : e \in Examples(Cfg, sent)}
Emit == PrintT(<<"CASE", ToJson([cfg |-> Cfg, sents |-> << [s |-> WritePartial(Sent), nann |-> Cardinality(Annotated), ex |-> ExOut(Sent)] >>])>>)
\* every relative position of the window occurs: the left-most feature of the middle boundary starts W characters to its left
Facts == \A e \in Examples(Cfg, Sent) : \A x \in e.feats :
            (x.f.k = "c" => (x.f.rel >= 0 - Cfg.cw /\ x.f.rel + 1 <= Cfg.cw)) /\ (x.f.k = "t" => (x.f.rel >= 0 - Cfg.tw /\ x.f.rel + 1 <= Cfg.tw))
=============================================================================
