------------------------------ MODULE SlotLemmas ------------------------------
(* Unbounded arithmetic facts that tie the trainer's weight layout (VpTrainer / MC_Trainer) to the   *)
(* scorer's slot arithmetic (VpModel), proved with TLAPS for ALL integers (TLC checks the same facts    *)
(* on bounded families in MC_Trainer).                                                              *)
(*   b   boundary (after b characters), j 0-based start of an n-gram of length m, W window size         *)
(*   the n-gram ends at character e = j + m; the trainer's relative position is rel = j - b              *)
EXTENDS Integers, TLAPS

NgSlot(W, e, b) == b - (e - W) + 1
DictSlot(len, e, b) == b - (e - len) + 1
TrainerSlot(W, m, rel) == W - m - rel + 1

\* the slot the trainer writes a weight to is the slot the scorer reads for that occurrence
THEOREM SlotAgreement ==
  \A W, m, j, b \in Int : NgSlot(W, j + m, b) = TrainerSlot(W, m, j - b)
  BY DEF NgSlot, TrainerSlot

\* an n-gram feature is extracted (starts at or after b - W, ends at or before b + W) exactly when its slot lies
\* inside the stored vector 1 .. 2W - m + 1
THEOREM SlotInRangeIffInWindow ==
  \A W, m, j, b \in Int :
     (j >= b - W /\ j + m <= b + W) <=> (NgSlot(W, j + m, b) >= 1 /\ NgSlot(W, j + m, b) <= 2 * W - m + 1)
  BY DEF NgSlot

\* dictionary word occupying characters s+1 .. s+len: the boundary where it starts reads the first weight,
\* the boundary where it ends reads the last weight, boundaries strictly inside read weights 2 .. len
THEOREM DictSlots ==
  \A s, len, b \in Int :
     /\ (b = s => DictSlot(len, s + len, b) = 1)
     /\ (b = s + len => DictSlot(len, s + len, b) = len + 1)
     /\ ((b > s /\ b < s + len) => (DictSlot(len, s + len, b) >= 2 /\ DictSlot(len, s + len, b) <= len))
  BY DEF DictSlot

\* the 7-slot padding suffices for fixed 8-slot vectors: a vector of at most 8 weights whose n-gram (window W, length m,
\* 2W - m + 1 <= 8) ends at character e of an n-character text lies inside the buffer of 14 + n - 1 slots
THEOREM FixedVectorFits ==
  \A W, m, e, n \in Int :
     (W >= 1 /\ m >= 1 /\ m <= 2 * W /\ 2 * W - m + 1 <= 8 /\ e >= m /\ e <= n)
        => (e + 6 - W >= 0 /\ (e + 6 - W) + 8 <= 14 + n - 1)
  OBVIOUS
=============================================================================
